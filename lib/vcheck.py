"""Runner library for the model-based checks of /verif.

A property module (props/Cxx.py) defines run(ctx).  ctx offers:
  ctx.mc(module, cfg, expect=...)        bounded exhaustive TLC run (design level)
  ctx.gen(module, cfg, ...)              behaviour generation (history variable -> JSON)
  ctx.go_test(pkg, run, env=...)         build + run a Go driver against /repo (tag verif)
  ctx.validate(module, cfg, trace, ...)  trace validation of what the real code did
  ctx.finish()                           evidence + exit status

Exit status: 0 held, 1 violation (VIOLATION line printed), 2 could not decide.
"""
import json, os, re, shutil, subprocess, sys, tempfile, time, hashlib, random

VERIF = os.path.dirname(os.path.dirname(os.path.abspath(__file__)))
REPO = os.environ.get("VERIF_REPO", "/repo")
SPEC = os.path.join(VERIF, "spec")
HARNESS = os.path.join(VERIF, "harness")
GOENV = {"GOFLAGS": "-mod=mod", "GOPROXY": "off", "GOSUMDB": "off", "GOTOOLCHAIN": "local"}
TLA_CP = "/opt/veriftools/tla/tla2tools.jar:/opt/veriftools/tla/CommunityModules-deps.jar"


class Undecided(Exception):
    pass


class Ctx:
    def __init__(self, prop, tier, seed, level="model_checking"):
        self.prop, self.tier, self.seed, self.level = prop, tier, seed, level
        self.t0 = time.time()
        self.scratch = tempfile.mkdtemp(prefix="verif-%s-" % prop)
        self.specdir = os.path.join(self.scratch, "spec")
        os.makedirs(self.specdir)
        for root, _, files in os.walk(SPEC):
            for f in files:
                if f.endswith((".tla", ".cfg")):
                    shutil.copy(os.path.join(root, f), os.path.join(self.specdir, f))
        self.states = 0
        self.transitions = 0
        self.mc_runs = []
        self.traces = 0
        self.trace_records = 0
        self.evaluations = 0
        self.distinct = 0
        self.samples = []
        self.rules = []
        self.counters = {}
        self.violations = []      # dicts: sig, detail, replay
        self.known_hits = []      # known findings reproduced
        self.undecided = []       # reasons
        self.skipped = []         # scenarios a driver could not set up
        import threading
        self._vlock = threading.Lock()
        self.round = 0            # thorough tier: further rounds of the drivers with other seeds
        self._cache = {}          # model-checking results of round 0 (they do not depend on the seed)
        self.assumptions = []
        self.exhaustive = False
        self.extra = {}
        self.known = load_known(prop)
        self.quick = tier == "quick"

    # ------------------------------------------------------------------ util
    def pick(self, quick, thorough):
        return quick if self.quick else thorough

    def log(self, *a):
        print("[%s %5.1fs]" % (self.prop, time.time() - self.t0), *a, flush=True)

    def _tlc(self, module, cfg, cwd, workers, timeout, extra=(), stack=False):
        md = tempfile.mkdtemp(prefix="md-", dir=self.scratch)
        cmd = ["timeout", str(int(timeout)), "java", "-XX:+UseParallelGC"]
        if stack:
            cmd.append("-Xss512m")
        cmd += ["-cp", TLA_CP, "tlc2.TLC", "-workers", str(workers), "-metadir", md,
                "-config", cfg, *extra, module]
        p = subprocess.run(cmd, cwd=cwd, stdout=subprocess.PIPE, stderr=subprocess.STDOUT, text=True)
        shutil.rmtree(md, ignore_errors=True)
        return p.returncode, p.stdout

    # -------------------------------------------------------------------- MC
    def mc(self, module, cfg, expect="ok", workers=8, timeout=600, count=True, extra=()):
        """expect: "ok" | "violates:<Name>" (non-vacuity run: the named invariant/property must fail)."""
        key = ("mc", module, cfg, expect, tuple(extra))
        if self.round > 0 and key in self._cache:
            return self._cache[key]
        t = time.time()
        if expect != "ok":
            workers = 1   # a run that must violate: breadth-first with one worker reports the same (shallowest) violation every time
        rc, out = self._tlc(module + ".tla", cfg, self.specdir, workers, timeout, extra)
        m = re.search(r"(\d+) states generated, (\d+) distinct states found", out)
        gen, dist = (int(m.group(1)), int(m.group(2))) if m else (0, 0)
        viol = re.search(r"Invariant (\w+) is violated", out)
        tviol = re.search(r"Temporal propert(y|ies) .*violated", out)
        aviol = re.search(r"Action property (\w+) is violated", out)
        ok = "No error has been found" in out
        got = "ok" if ok else ("violates:" + viol.group(1) if viol else
                               "violates:temporal" if tviol else
                               "violates:" + aviol.group(1) if aviol else "error")
        rec = {"cfg": cfg, "expect": expect, "got": got, "generated": gen, "distinct": dist,
               "wall_s": round(time.time() - t, 1)}
        self.mc_runs.append(rec)
        if rc == 124:
            self.undecided.append("TLC timeout on %s" % cfg)
        elif got != expect and not (expect == "violates:temporal" and got.startswith("violates")):
            self.undecided.append("specification run %s: expected %s, got %s" % (cfg, expect, got))
            sys.stdout.write(out[-3000:])
        if count and expect == "ok":
            self.states += dist
            self.transitions += gen
        self.log("MC %-40s %-28s %8d gen %8d distinct %5.1fs" % (cfg, got, gen, dist, time.time() - t))
        self._cache[key] = (rec, out)
        return rec, out

    def lockmc(self, progs_path, k, expect="ok", timeout=900, label=None):
        """Runs Locks.tla on a file of lock programs; returns (got, chosen program indexes of the counterexample or None)."""
        if self.round > 0 and (label or "").startswith("sample"):
            return expect, None, ""
        wd = tempfile.mkdtemp(prefix="lk-", dir=self.scratch)
        for f in ("Locks.tla", "Locks_k%d.cfg" % k):
            shutil.copy(os.path.join(self.specdir, f), wd)
        shutil.copy(progs_path, os.path.join(wd, "progs.json"))
        t = time.time()
        rc, out = self._tlc("Locks.tla", "Locks_k%d.cfg" % k, wd, 8, timeout)
        m = re.search(r"(\d+) states generated, (\d+) distinct states found", out)
        gen, dist = (int(m.group(1)), int(m.group(2))) if m else (0, 0)
        viol = re.search(r"Invariant (\w+) is violated", out)
        ok = "No error has been found" in out
        got = "ok" if ok else ("violates:" + viol.group(1) if viol else "error")
        chosen = None
        if viol:
            cm = re.findall(r"chosen = <<([0-9, ]+)>>", out)
            if cm:
                chosen = [int(x) for x in cm[-1].split(",")]
        name = label or os.path.basename(progs_path)
        self.mc_runs.append({"cfg": "Locks_k%d.cfg on %s" % (k, name), "expect": expect, "got": got, "generated": gen,
                             "distinct": dist, "wall_s": round(time.time() - t, 1)})
        if rc == 124:
            self.undecided.append("TLC timeout on the lock programs (%s, K=%d)" % (name, k))
        elif got == "error":
            self.undecided.append("TLC error on the lock programs (%s)" % name)
            sys.stdout.write(out[-2000:])
        elif expect != "ok" and got != expect:
            self.undecided.append("lock model run %s: expected %s, got %s" % (name, expect, got))
        if expect == "ok" and got == "ok":
            self.states += dist
            self.transitions += gen
        self.log("LK  %-40s %-28s %8d gen %8d distinct %5.1fs" % ("K=%d %s" % (k, name), got, gen, dist, time.time() - t))
        shutil.rmtree(wd, ignore_errors=True)
        return got, chosen, out

    # ------------------------------------------------------------------- gen
    def gen(self, module, cfg, timeout=600, simulate=None, workers=1):
        """Runs a generator configuration; returns the list of histories (parsed JSON)."""
        gkey = ("gen", module, cfg, json.dumps(simulate, sort_keys=True))
        if self.round > 0 and gkey in self._cache and not simulate:
            return self._cache[gkey]
        extra = []
        if simulate:
            extra = ["-simulate", "num=%d" % simulate["num"], "-depth", str(simulate.get("depth", 100)),
                     "-seed", str(self.seed)]
        rc, out = self._tlc(module + ".tla", cfg, self.specdir, workers, timeout, extra)
        hs = []
        for line in out.splitlines():
            if line.startswith('<<"HIST", '):
                s = line[len('<<"HIST", '):-2]
                try:
                    hs.append(json.loads(json.loads(s)))
                except Exception:
                    pass
        m = re.search(r"(\d+) states generated, (\d+) distinct states found", out)
        if rc == 124 or (not hs):
            self.undecided.append("generator %s produced no behaviours (rc=%s)" % (cfg, rc))
            sys.stdout.write(out[-2000:])
        self.log("GEN %-40s %d behaviours" % (cfg, len(hs)))
        self._cache[gkey] = hs
        return hs

    # -------------------------------------------------------------------- go
    def go_test(self, pkg, run, env=None, timeout=900, name=None, race=False, extra_args=(), overlay=False):
        """Runs a driver in /verif/harness against /repo's working tree. Returns (outdir, result dict or None)."""
        out = os.path.join(self.scratch, name or ("go-" + run.strip("^$")))
        os.makedirs(out, exist_ok=True)
        e = dict(os.environ)
        e.update(GOENV)
        e.update({"VERIF_OUT": out, "VERIF_TIER": self.tier, "VERIF_SEED": str(self.seed)})
        if env:
            e.update({k: str(v) for k, v in env.items()})
        gosum = os.path.join(HARNESS, "go.sum")
        if not os.path.exists(gosum) or open(gosum).read() != open(os.path.join(REPO, "go.sum")).read():
            pass  # go.sum of the harness is a superset copy kept in git; -mod=mod extends it if needed
        cmd = ["go", "test", "-tags", "verif", "-count=1", "-run", run, "-timeout", "%ds" % timeout]
        if race:
            cmd.append("-race")
        if overlay:
            # instrumented internal/sync (lock events), applied at build time: /repo itself is not touched
            cmd.append("-overlay=" + os.path.join(HARNESS, "overlay", "overlay.json"))
        cmd += list(extra_args) + ["./" + pkg + "/"]
        t = time.time()
        p = subprocess.run(cmd, cwd=HARNESS, env=e, stdout=subprocess.PIPE, stderr=subprocess.STDOUT, text=True)
        open(os.path.join(out, "go_test.out"), "w").write(p.stdout)
        res = None
        rp = os.path.join(out, "result.json")
        if os.path.exists(rp):
            try:
                res = json.load(open(rp))
            except Exception:
                res = None
        self.log("GO  %-40s rc=%d %5.1fs" % (pkg + ":" + run, p.returncode, time.time() - t))
        races = re.findall(r"WARNING: DATA RACE\n(.*?)\n==================", p.stdout, re.S) if race else []
        if races:
            # the race detector spoke: each distinct report whose stacks lie in the repository is a violation
            seen = set()
            for blk in races:
                # the two conflicting accesses: the innermost frame of each; at least one must be the library's
                # (a race between two statements of the harness is the harness's bug, not a finding)
                acc = re.findall(r"(?:^|\n)(?:Previous )?(?:[Aa]tomic )?(?:[Ww]rite|[Rr]ead) at [^\n]*\n  [^\n]*\n\s+(\S+\.go:\d+)", blk)
                frames = [a for a in acc if a.startswith("/repo/")]
                if not frames:
                    continue
                key = frames[0]
                if key in seen:
                    continue
                seen.add(key)
                self.violation("race:" + key.replace("/repo/", ""), "data race reported by the race detector:\n" + blk[:1500],
                               {"driver_out": out})
            if res is not None:
                self.absorb(res, out)
                return out, res
        if p.returncode != 0 or res is None:
            tail = p.stdout[-4000:]
            sys.stdout.write(tail)
            if re.search(r"^(#|.*\[build failed\]|.*cannot find|.*undefined:)", p.stdout, re.M) and "--- FAIL" not in p.stdout:
                self.undecided.append("driver %s did not build or run (rc=%d)" % (run, p.returncode))
            else:
                self.undecided.append("driver %s failed without a result (rc=%d)" % (run, p.returncode))
            if res is None:
                return out, None
        self.absorb(res, out)
        return out, res

    def absorb(self, res, out):
        self.evaluations += res.get("evaluations", 0)
        self.distinct += res.get("distinct_nontrivial", 0)
        if res.get("rule"):
            self.rules.append(res["rule"])
        for s in res.get("samples") or []:
            if len(self.samples) < 8:
                self.samples.append(s)
        for k, v in (res.get("counters") or {}).items():
            self.counters[k] = self.counters.get(k, 0) + v
        if res.get("exhaustive"):
            self.exhaustive = True
        for v in res.get("verdicts") or []:
            if v["kind"] == "violation":
                self.violation(v["sig"], v["detail"], {"scenario": v.get("scenario"), "repro": v.get("repro"),
                                                       "driver_out": out})
            else:
                # a scenario the driver could not set up (e.g. a client did not connect in time on a loaded machine):
                # nothing is claimed about it; tolerated up to a tenth of the driver's scenarios, undecided beyond
                self.skipped.append("driver: %s: %s" % (v["sig"], v["detail"]))
        n_ok = max(res.get("evaluations", 0), 1)
        if len(self.skipped) > max(1, n_ok // 10):
            self.undecided.append("%d scenarios could not be set up: %s" % (len(self.skipped), "; ".join(self.skipped[:3])))

    # ------------------------------------------------------------- violations
    def violation(self, sig, detail, repro=None, files=()):
        k = match_known(self.known, sig)
        if k is not None:
            if k["id"] not in [h["id"] for h in self.known_hits]:
                self.known_hits.append(k)
                print("KNOWN-FINDING: property=%s %s [%s] %s" % (self.prop, k["id"], sig, k["what"]), flush=True)
            return
        n = len(self.violations) + 1
        d = os.path.join(VERIF, "replays", self.prop, "%s-%d-%d" % (self.tier, self.seed, n))
        os.makedirs(d, exist_ok=True)
        json.dump({"property": self.prop, "sig": sig, "detail": detail, "repro": repro, "tier": self.tier,
                   "seed": self.seed}, open(os.path.join(d, "scenario.json"), "w"), indent=1, default=str)
        for f in files:
            if os.path.exists(f):
                shutil.copy(f, d)
        self.violations.append({"sig": sig, "detail": detail, "replay": d})
        print("  violation [%s] %s" % (sig, detail[:600]), flush=True)
        print("VIOLATION property=%s replay=%s" % (self.prop, d), flush=True)

    # ------------------------------------------------------------- validation
    def validate(self, module, cfg, trace_path, sigprefix="trace", timeout=900, max_reject=12, dfs=False, ignore_deviations=(), chunk=12000):
        """Validates an NDJSON trace (scenarios separated by `reset` records) against a trace
        specification.  A rejected scenario is reported, cut out, and the rest is validated again.
        Long traces are cut at scenario boundaries (every trace specification re-initialises all its
        variables at a `reset` record) and the pieces validated by several TLC processes at once."""
        if not os.path.exists(trace_path):
            self.undecided.append("no trace file %s" % trace_path)
            return
        lines = [l for l in open(trace_path).read().split("\n") if l.strip()]
        starts = [i for i, l in enumerate(lines) if '"ev":"reset"' in l]
        if len(lines) > chunk and len(starts) > 1:
            pieces, cur = [], 0
            for k, st in enumerate(starts[1:], 1):
                if st - cur >= chunk:
                    pieces.append(lines[cur:st])
                    cur = st
            pieces.append(lines[cur:])
            import concurrent.futures
            self.log("TV  %-40s %6d records in %d pieces" % (cfg, len(lines), len(pieces)))
            with concurrent.futures.ThreadPoolExecutor(max_workers=6) as ex:
                futs = [ex.submit(self._validate_lines, module, cfg, pc, sigprefix, timeout, max_reject, ignore_deviations) for pc in pieces]
                for f in futs:
                    f.result()
            return
        self._validate_lines(module, cfg, lines, sigprefix, timeout, max_reject, ignore_deviations)

    def _validate_lines(self, module, cfg, lines, sigprefix, timeout, max_reject, ignore_deviations):
        trace_path = "<piece>"
        # scenario boundaries
        scen = []
        for i, l in enumerate(lines):
            if '"ev":"reset"' in l:
                scen.append(i)
        nscen = len(scen)
        if not lines:
            self.undecided.append("empty trace %s" % trace_path)
            return
        if not scen or scen[0] != 0:
            scen = [0] + scen
        rejected = 0
        while True:
            wd = tempfile.mkdtemp(prefix="tv-", dir=self.scratch)
            for f in os.listdir(self.specdir):
                shutil.copy(os.path.join(self.specdir, f), wd)
            open(os.path.join(wd, "trace.ndjson"), "w").write("\n".join(lines) + "\n")
            extra = []
            t = time.time()
            rc, out = self._tlc(module + ".tla", cfg, wd, 1, timeout, extra, stack=True)
            self._vlock.acquire()
            try:
                done = self._after_tlc(module, cfg, lines, wd, rc, out, t, sigprefix, ignore_deviations)
            finally:
                self._vlock.release()
            if done is True:
                return
            lines = done
            rejected += 1
            if rejected >= max_reject or not lines:
                return

    def _after_tlc(self, module, cfg, lines, wd, rc, out, t, sigprefix, ignore_deviations):
        """bookkeeping after one TLC run over `lines`; returns True when done, else the lines left to validate"""
        if True:
            m = re.search(r"(\d+) states generated, (\d+) distinct states found", out)
            rej = re.search(r'"TRACE_REJECTED_AT", (\d+)', out)
            inv = re.search(r"Invariant (\w+) is violated", out)
            if rc == 124:
                self.undecided.append("trace validation timeout (%s)" % cfg)
                shutil.rmtree(wd, ignore_errors=True)
                return True
            # independent vector records that the specification does not explain (printed, not fatal)
            mism = sorted(set(int(x) for x in re.findall(r'"STEP_MISMATCH", (\d+)', out)))
            if mism:
                groups = {}
                for at in mism:
                    try:
                        r = json.loads(lines[at - 1])
                    except Exception:
                        r = {}
                    if r.get("ev") == "step":
                        g = "%s:step:%s:%s%s" % (sigprefix, r.get("sut", "?"), r.get("op", "?"),
                                                 ":panic" if r.get("panic") else "")
                    else:
                        g = ":".join(str(x) for x in [sigprefix, r.get("ev", "?")] +
                                     [r[k] for k in ("dir", "transport", "limitName", "class", "kind") if k in r])
                    groups.setdefault(g, []).append(at)
                for g, ats in sorted(groups.items()):
                    ex = [lines[a - 1][:400] for a in ats[:3]]
                    self.violation(g, "%d vector(s) differ from the specification's reference semantics, e.g. %s" % (len(ats), " || ".join(ex)),
                                   {"examples": ex, "count": len(ats)})
                self.extra["step_mismatches"] = self.extra.get("step_mismatches", 0) + len(mism)
            # named deviations the trace specification accepts but reports (recorded findings)
            for dev in sorted(set(re.findall(r'"DEVIATION", "(\w+)", \d+', out))):
                n = len(re.findall(r'"DEVIATION", "%s", \d+' % dev, out))
                self.counters["deviation_" + dev] = self.counters.get("deviation_" + dev, 0) + n
                if dev in ignore_deviations:
                    continue
                self.violation("deviation:" + dev, "%d record(s) explained only by the named deviation %s of %s" % (n, dev, module), {"count": n})
            accepted = ("No error has been found" in out) and not rej
            self.log("TV  %-40s %6d records %s %5.1fs" % (cfg, len(lines), "accepted" if accepted else "REJECTED", time.time() - t))
            if accepted:
                if m:
                    self.extra["trace_states"] = self.extra.get("trace_states", 0) + int(m.group(2))
                self.trace_records += len(lines)
                self.traces += len([1 for l in lines if '"ev":"reset"' in l]) or 1
                shutil.rmtree(wd, ignore_errors=True)
                return True
            if rej:
                at = int(rej.group(1))          # index (1-based) of the first record no action explains
                why = "no action of %s explains record %d" % (module, at)
            elif inv:
                # the state in which the invariant fails is printed with l = next record
                ls = re.findall(r"/\\ l = (\d+)", out)
                at = int(ls[-1]) - 1 if ls else 1
                why = "invariant %s of %s fails after record %d" % (inv.group(1), module, at)
            else:
                self.undecided.append("trace validation error (%s)" % cfg)
                sys.stdout.write(out[-3000:])
                shutil.rmtree(wd, ignore_errors=True)
                return True
            at = max(1, min(at, len(lines)))
            # locate scenario
            starts = [i for i, l in enumerate(lines) if '"ev":"reset"' in l]
            if not starts or starts[0] != 0:
                starts = [0] + starts
            si = max(i for i in range(len(starts)) if starts[i] <= at - 1)
            s0 = starts[si]
            s1 = starts[si + 1] if si + 1 < len(starts) else len(lines)
            seg = lines[s0:s1]
            try:
                head = json.loads(seg[0])
            except Exception:
                head = {}
            try:
                badrec = json.loads(lines[at - 1])
            except Exception:
                badrec = {}
            sig = "%s:%s:%s" % (sigprefix, inv.group(1) if inv else badrec.get("ev", "?"), head.get("cfg", head.get("class", "")))
            tf = os.path.join(wd, "rejected_scenario.ndjson")
            open(tf, "w").write("\n".join(seg) + "\n")
            of = os.path.join(wd, "tlc.out")
            open(of, "w").write(out[-20000:])
            ctxlines = lines[max(s0, at - 6):at]
            self.violation(sig, "%s; scenario %s; offending record: %s; preceding: %s" % (
                why, json.dumps(head)[:300], lines[at - 1][:300], " | ".join(ctxlines[:-1])[:900]),
                {"scenario_head": head, "record_index_in_scenario": at - s0}, files=(tf, of))
            lines = lines[:s0] + lines[s1:]
            shutil.rmtree(wd, ignore_errors=True)
            return lines

    # ---------------------------------------------------------------- finish
    def finish(self):
        wall = round(time.time() - self.t0, 1)
        cov = {
            "states": self.states, "transitions": self.transitions,
            "traces_validated_against_impl": self.traces,
            "trace_records_validated": self.trace_records,
            "samples": self.samples[:8] or [{"mc_runs": self.mc_runs[:2]}],
            "evaluations": self.evaluations, "distinct_nontrivial": self.distinct,
            "rule": " || ".join(self.rules),
            "mc_runs": self.mc_runs, "counters": self.counters,
            "known_findings_reproduced": [k["id"] for k in self.known_hits],
            "exhaustive": self.exhaustive,
        }
        self.assumptions = list(dict.fromkeys(self.assumptions))
        cov["rule"] = " || ".join(dict.fromkeys(self.rules))
        cov["driver_rounds"] = self.round + 1
        cov.update(self.extra)
        if self.level == "other":
            cov["explanation"] = self.extra.get("explanation", "")
        ev = {"property_id": self.prop, "tier": self.tier, "seed": self.seed, "level": self.level,
              "coverage": cov, "assumptions": self.assumptions, "wall_s": wall,
              "violations": len(self.violations)}
        if self.undecided:
            ev["coverage"]["undecided"] = self.undecided[:20]
        if self.skipped:
            ev["coverage"]["skipped_scenarios"] = self.skipped[:20]
            for u in self.skipped[:5]:
                print("SKIPPED:", u)
        os.makedirs(os.path.join(VERIF, "evidence"), exist_ok=True)
        json.dump(ev, open(os.path.join(VERIF, "evidence", self.prop + ".json"), "w"), indent=1, default=str)
        if not os.environ.get("VERIF_KEEP"):
            shutil.rmtree(self.scratch, ignore_errors=True)
        else:
            print("scratch kept:", self.scratch)
        if self.violations:
            print("RESULT %s: %d violation(s)" % (self.prop, len(self.violations)))
            return 1
        if self.undecided:
            for u in self.undecided[:10]:
                print("UNDECIDED:", u)
            print("RESULT %s: could not decide" % self.prop)
            return 2
        print("RESULT %s: held on everything explored (%d states, %d traces, %d evaluations, %.0fs)" % (
            self.prop, self.states, self.traces, self.evaluations, wall))
        return 0


def load_known(prop):
    p = os.path.join(VERIF, "known_findings.json")
    if not os.path.exists(p):
        return []
    return [k for k in json.load(open(p)) if k.get("property") == prop and k.get("status") == "finding"]


def match_known(known, sig):
    for k in known:
        pat = k.get("signature", "")
        if pat and re.fullmatch(pat, sig):
            return k
    return None


def project_scripts(hists, controllable, cap=None, seed=0):
    """Reduce TLC behaviours to their distinct projections onto controllable steps (order kept)."""
    seen, out = set(), []
    for h in hists:
        key = json.dumps(h)
        if key in seen:
            continue
        seen.add(key)
        out.append(h)
    if cap and len(out) > cap:
        rnd = random.Random(seed)
        out = rnd.sample(out, cap)
    return out
