"""Turns the lock events recorded from the real library (hooks in internal/sync, build tag verif)
into the lock programs Locks.tla runs, and checks what needs no interleaving: nothing held at
quiescence, nobody still waiting.

trace records: {"ev":"lk","op":"req|acq|rel","mode":"w|r","m":<instance>,"g":<goroutine>,"site":"file:line"}
               {"ev":"reset","scenario":n,...}  {"ev":"quiesce",...}
"""
import json


def extract(trace_path, max_len=60):
    """returns (programs, problems, stats); programs: list of {"scen":n,"ops":[{"op","m"}],"sites":[...],"g":g}"""
    progs, problems = [], []
    seen = set()
    scen = 0
    held = {}      # g -> list of (m, mode)
    cur = {}       # g -> current stretch: list of (op, m, site)
    waiting = {}   # g -> (m, mode, site)
    settle_seq = [0]
    stats = {"lock_events": 0, "stretches": 0, "nested": 0, "max_depth": 0, "scenarios": 0, "instances": set(), "sites": set()}

    def close_stretch(g):
        ops = cur.pop(g, [])
        if not ops:
            return
        stats["stretches"] += 1
        # keep it if two locks were ever held at once, or one mutex was locked twice
        depth, mx, cnt, twice = 0, 0, {}, False
        for op, m, _ in ops:
            if op in ("L", "RL"):
                depth += 1
                cnt[m] = cnt.get(m, 0) + 1
                if cnt[m] > 1:
                    twice = True
            else:
                depth -= 1
                cnt[m] = cnt.get(m, 0) - 1
            mx = max(mx, depth)
        stats["max_depth"] = max(stats["max_depth"], mx)
        if mx < 2 and not twice:
            return
        # a program must give back everything it took (a stretch whose records are incomplete - an acquisition or a
        # release outside the scenario's records, an unlock by another goroutine - is not a program)
        bal = {}
        for op, m, _ in ops:
            key = (m, "w" if op in ("L", "U") else "r")
            bal[key] = bal.get(key, 0) + (1 if op in ("L", "RL") else -1)
            if bal[key] < 0:
                break
        if any(v != 0 for v in bal.values()):
            stats["unbalanced_dropped"] = stats.get("unbalanced_dropped", 0) + 1
            return
        stats["nested"] += 1
        if len(ops) > max_len:
            ops = prune(ops)
        key = (scen, tuple((o, m) for o, m, _ in ops))
        if key in seen:
            return
        seen.add(key)
        progs.append({"scen": scen, "ops": [{"op": o, "m": m} for o, m, _ in ops], "sites": [s for _, _, s in ops], "g": g})

    def end_scenario(final, alive=None):
        # Only what was already held / awaited at the "settle" mark and is still so at "quiesce" (300 ms later)
        # counts: a goroutine merely caught inside a critical section moves on.
        def old(sq):
            return final and settle_seq[0] and sq < settle_seq[0]
        alive_set = set(alive) if alive is not None else None
        holders = {}   # m -> [(g, mode, site)]
        for g, hs in held.items():
            for (m, mode, site, sq) in hs:
                if old(sq):
                    holders.setdefault(m, []).append((g, mode, site))
        # a mutex left held: its holder no longer exists (it returned - or died - without unlocking)
        for m, hl in holders.items():
            for (g, mode, site) in hl:
                if alive_set is not None and g not in alive_set:
                    problems.append({"kind": "left-held", "scenario": scen, "g": g, "m": m, "mode": mode, "site": site})
        # goroutines still waiting for a mutex: follow who holds it. A cycle is a deadlock; a chain that ends at a
        # goroutine that is gone is the consequence of a mutex left held; one that ends at a goroutine that is alive
        # and not waiting for a lock (network, sleep, channel) is not a locking problem (the watchdog's business).
        wait = {g: (m, mode, site) for g, (m, mode, site, sq) in waiting.items() if old(sq)}
        reported = set()
        for g0 in wait:
            path, g = [], g0
            while True:
                if g in path:
                    cyc = path[path.index(g):]
                    key = tuple(sorted(cyc))
                    if key not in reported:
                        reported.add(key)
                        problems.append({"kind": "deadlock-observed", "scenario": scen, "cycle": [
                            {"g": x, "waits_at": wait[x][2], "m": wait[x][0]} for x in cyc]})
                    break
                path.append(g)
                if g not in wait:
                    break
                m = wait[g][0]
                hs = [h for h in holders.get(m, []) if h[0] != g] or holders.get(m, [])
                if not hs:
                    break
                nxt = hs[0][0]
                if alive_set is not None and nxt not in alive_set:
                    key = ("gone", g0)
                    if key not in reported:
                        reported.add(key)
                        problems.append({"kind": "still-waiting", "scenario": scen, "g": g0, "m": wait[g0][0], "mode": wait[g0][1],
                                         "site": wait[g0][2], "holder_sites": [hs[0][2]]})
                    break
                g = nxt
        held.clear()
        cur.clear()
        waiting.clear()
        settle_seq[0] = 0

    with open(trace_path) as f:
        for line in f:
            r = json.loads(line)
            ev = r.get("ev")
            if ev == "reset":
                if scen:
                    end_scenario(False)
                scen = r.get("scenario", scen + 1)
                stats["scenarios"] += 1
                continue
            if ev == "settle":
                settle_seq[0] = r.get("seq", 0)
                continue
            if ev == "quiesce":
                end_scenario(True, r.get("alive"))
                continue
            if ev != "lk":
                continue
            stats["lock_events"] += 1
            g, m, mode, op, site, sq = r["g"], r["m"], r["mode"], r["op"], r.get("site", ""), r.get("seq", 0)
            stats["instances"].add((scen, m))
            stats["sites"].add(site)
            if op == "req":
                waiting[g] = (m, mode, site, sq)
            elif op == "acq":
                waiting.pop(g, None)
                held.setdefault(g, []).append((m, mode, site, sq))
                cur.setdefault(g, []).append(("L" if mode == "w" else "RL", m, site))
            elif op == "rel":
                hs = held.get(g, [])
                matched = False
                for i in range(len(hs) - 1, -1, -1):
                    if hs[i][0] == m and hs[i][1] == mode:
                        del hs[i]
                        matched = True
                        break
                else:
                    # not locked by this goroutine as far as the trace goes. A read lock taken before the scenario's
                    # records began is simply not known (never take another reader's entry for it); a write lock has
                    # one holder, so it was locked by another goroutine (legal for sync.Mutex): find it
                    for gg, hh in (held.items() if mode == "w" else ()):
                        for i in range(len(hh) - 1, -1, -1):
                            if hh[i][0] == m and hh[i][1] == mode:
                                del hh[i]
                                problems.append({"kind": "released-by-other", "scenario": scen, "g": g, "locker": gg, "m": m, "site": site})
                                break
                if matched:
                    cur.setdefault(g, []).append(("U" if mode == "w" else "RU", m, site))
                if not hs:
                    held.pop(g, None)
                    close_stretch(g)
    if scen:
        end_scenario(False)
    stats["instances"] = len(stats["instances"])
    stats["sites"] = len(stats["sites"])
    return progs, problems, stats


def prune(ops):
    """drops lock/unlock pairs taken and released at depth >= 1 without anything nested inside them? no:
    keeps the program but removes immediately adjacent acquire/release pairs of the same mutex at depth 0"""
    out = []
    depth = 0
    i = 0
    while i < len(ops):
        op, m, s = ops[i]
        if depth == 0 and op in ("L", "RL") and i + 1 < len(ops) and ops[i + 1][1] == m and ops[i + 1][0] in ("U", "RU"):
            i += 2
            continue
        out.append(ops[i])
        depth += 1 if op in ("L", "RL") else -1
        i += 1
    return out
