"""Turns the lock events recorded from the real library (hooks in internal/sync, build tag verif)
into the lock programs Locks.tla runs, and checks what needs no interleaving: nothing held at
quiescence, nobody still waiting.

trace records: {"ev":"lk","op":"req|acq|rel","mode":"w|r","m":<instance>,"g":<goroutine>,"site":"file:line"}
               {"ev":"reset","scenario":n,...}  {"ev":"quiesce",...}
"""
import json


def extract(trace_path, max_len=60):
    """returns (programs, problems, stats); programs: list of {"scen":n,"ops":[{"op","m"}],"sites":[...],"g":g}"""
    progs, problems = [], []
    seen = set()
    scen = 0
    held = {}      # g -> list of (m, mode)
    cur = {}       # g -> current stretch: list of (op, m, site)
    waiting = {}   # g -> (m, mode, site)
    stats = {"lock_events": 0, "stretches": 0, "nested": 0, "max_depth": 0, "scenarios": 0, "instances": set(), "sites": set()}

    def close_stretch(g):
        ops = cur.pop(g, [])
        if not ops:
            return
        stats["stretches"] += 1
        # keep it if two locks were ever held at once, or one mutex was locked twice
        depth, mx, cnt, twice = 0, 0, {}, False
        for op, m, _ in ops:
            if op in ("L", "RL"):
                depth += 1
                cnt[m] = cnt.get(m, 0) + 1
                if cnt[m] > 1:
                    twice = True
            else:
                depth -= 1
                cnt[m] = cnt.get(m, 0) - 1
            mx = max(mx, depth)
        stats["max_depth"] = max(stats["max_depth"], mx)
        if mx < 2 and not twice:
            return
        stats["nested"] += 1
        if len(ops) > max_len:
            ops = prune(ops)
        key = (scen, tuple((o, m) for o, m, _ in ops))
        if key in seen:
            return
        seen.add(key)
        progs.append({"scen": scen, "ops": [{"op": o, "m": m} for o, m, _ in ops], "sites": [s for _, _, s in ops], "g": g})

    def end_scenario(final):
        for g, (m, mode, site) in list(waiting.items()):
            problems.append({"kind": "still-waiting", "scenario": scen, "g": g, "m": m, "mode": mode, "site": site,
                             "holder_sites": [s for gg, hs in held.items() for (mm, _, s) in hs if mm == m]})
        for g, hs in list(held.items()):
            for (m, mode, site) in hs:
                problems.append({"kind": "left-held", "scenario": scen, "g": g, "m": m, "mode": mode, "site": site})
        held.clear()
        cur.clear()
        waiting.clear()

    with open(trace_path) as f:
        for line in f:
            r = json.loads(line)
            ev = r.get("ev")
            if ev == "reset":
                if scen:
                    end_scenario(False)
                scen = r.get("scenario", scen + 1)
                stats["scenarios"] += 1
                continue
            if ev == "quiesce":
                end_scenario(True)
                continue
            if ev != "lk":
                continue
            stats["lock_events"] += 1
            g, m, mode, op, site = r["g"], r["m"], r["mode"], r["op"], r.get("site", "")
            stats["instances"].add((scen, m))
            stats["sites"].add(site)
            if op == "req":
                waiting[g] = (m, mode, site)
            elif op == "acq":
                waiting.pop(g, None)
                held.setdefault(g, []).append((m, mode, site))
                cur.setdefault(g, []).append(("L" if mode == "w" else "RL", m, site))
            elif op == "rel":
                hs = held.get(g, [])
                for i in range(len(hs) - 1, -1, -1):
                    if hs[i][0] == m and hs[i][1] == mode:
                        del hs[i]
                        break
                else:
                    # released by another goroutine than the one that locked it (legal for sync.Mutex): find it
                    for gg, hh in held.items():
                        for i in range(len(hh) - 1, -1, -1):
                            if hh[i][0] == m and hh[i][1] == mode:
                                del hh[i]
                                problems.append({"kind": "released-by-other", "scenario": scen, "g": g, "locker": gg, "m": m, "site": site})
                                break
                cur.setdefault(g, []).append(("U" if mode == "w" else "RU", m, site))
                if not hs:
                    held.pop(g, None)
                    close_stretch(g)
    if scen:
        end_scenario(True)
    stats["instances"] = len(stats["instances"])
    stats["sites"] = len(stats["sites"])
    return progs, problems, stats


def prune(ops):
    """drops lock/unlock pairs taken and released at depth >= 1 without anything nested inside them? no:
    keeps the program but removes immediately adjacent acquire/release pairs of the same mutex at depth 0"""
    out = []
    depth = 0
    i = 0
    while i < len(ops):
        op, m, s = ops[i]
        if depth == 0 and op in ("L", "RL") and i + 1 < len(ops) and ops[i + 1][1] == m and ops[i + 1][0] in ("U", "RU"):
            i += 2
            continue
        out.append(ops[i])
        depth += 1 if op in ("L", "RL") else -1
        i += 1
    return out
