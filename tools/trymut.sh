#!/bin/bash
# usage: tools/trymut.sh <patch.diff> <ID> [tier]   -- applies a patch to /repo, runs the check, always restores /repo
set -u
P=$1; ID=$2; TIER=${3:-quick}
cd /repo || exit 3
if ! git diff --quiet; then echo "repo dirty"; exit 3; fi
if ! git apply "$P" 2>/tmp/apply.err; then echo "patch does not apply"; cat /tmp/apply.err; git reset -q --hard HEAD; exit 3; fi
cd /verif && ./check "$ID" --tier "$TIER" > /tmp/trymut_$ID.log 2>&1; rc=$?
git -C /repo reset -q --hard HEAD; git -C /repo clean -fdq
git -C /verif checkout -- evidence 2>/dev/null
echo "exit=$rc"; grep -E "VIOLATION|KNOWN-FINDING|UNDECIDED|RESULT" /tmp/trymut_$ID.log | head -8
