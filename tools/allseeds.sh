#!/bin/bash
# usage: tools/allseeds.sh [name ...]   -- applies every kept seeded change in turn, runs the check(s) that must catch it
# (property of the seed, or the one named in CAUGHT_BY below), restores /repo, prints one line per seed.
declare -A CAUGHT_BY=( [c05b]=C06 [c07a]=C14 [c02b]=C15 [c02c]=C07 )
cd /verif
names=${@:-$(ls seeded)}
for n in $names; do
  prop=$(python3 -c "import json;print(json.load(open('seeded/$n/meta.json'))['property'])")
  id=${CAUGHT_BY[$n]:-$prop}
  out=$(tools/trymut.sh /verif/seeded/$n/patch.diff $id 2>&1)
  rc=$(echo "$out" | grep -o "exit=[0-9]*" | head -1)
  if echo "$out" | grep -q "patch does not apply"; then echo "$n $id DOES-NOT-APPLY"; continue; fi
  nv=$(echo "$out" | grep -c "^VIOLATION")
  echo "$n $id $rc violations_shown=$nv"
done
