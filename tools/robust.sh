#!/bin/bash
# usage: tools/robust.sh "<seeds>" [ids...]  -- runs the quick tier of every check with each seed on the unchanged tree
cd /verif
seeds=${1:-"2 3"}; shift
ids=${@:-"C01 C02 C03 C04 C05 C06 C07 C08 C09 C10 C11 C12 C13 C14 C15 C16 C17 C18 C19"}
for s in $seeds; do for id in $ids; do
  t0=$(date +%s); VERIF_SEED=$s ./check $id --tier quick > /tmp/robust_${id}_$s.log 2>&1; rc=$?
  echo "seed=$s $id rc=$rc $(( $(date +%s) - t0 ))s $(tail -1 /tmp/robust_${id}_$s.log | cut -c1-120)"
done; done
git -C /verif checkout -- evidence 2>/dev/null
