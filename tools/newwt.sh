#!/bin/bash
# usage: newwt.sh <name>  -> creates scratch worktree /tmp/wt/<name> at /repo HEAD and out dir /tmp/wt/<name>-out
set -e
mkdir -p /tmp/wt
git -C /repo worktree add --detach /tmp/wt/$1 HEAD >/dev/null 2>&1
mkdir -p /tmp/wt/$1-out
echo /tmp/wt/$1
