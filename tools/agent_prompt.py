#!/usr/bin/env python3
"""prints the prompt for a seeding sub-agent: agent_prompt.py <prop> <wtname> <focus text>"""
import json, sys
pid, wt, focus = sys.argv[1], sys.argv[2], sys.argv[3]
p = [json.loads(l) for l in open('/verif/properties.jsonl') if json.loads(l)['id'] == pid][0]
print(f"""You are helping test a verification effort by writing a realistic, subtle bug ("seeded change") into a Go library. Work ONLY inside the git worktree /tmp/wt/{wt} (a checkout of the Go module github.com/karagenc/socket.io-go: Socket.IO v5 / Engine.IO v4 client+server). Do NOT read or touch /repo or /verif. Write your deliverables to /tmp/wt/{wt}-out/.

Shell setup for every command: `export GOFLAGS=-mod=mod GOPROXY=off GOSUMDB=off GOTOOLCHAIN=local` (no network; all deps are cached).

The property your change must BREAK:
"{p['title']}. {p['statement']}" -- quantified {p['quantifier']['text']}.

Relevant code: {', '.join(p['anchors']['files'])}. Focus for you: {focus}

Requirements for the change:
1. It must still compile (`go build ./...`) and the EXISTING test suite must still pass. Run the tests of the packages you touch, e.g. `go test -vet=off -count=1 ./engine.io/... ./adapter/... ./parser/...` and for the root package `go test -vet=off -count=1 .` (root tests take ~100 s). NOTE: these root tests are ALREADY flaky/failing on the untouched code in this sandbox, ignore them: TestClient/should_emit_events_in_order, TestClient/*volatile*, TestNamespace/emits_to_rooms*, TestNamespace/emits_to_the_rest, TestNamespace/broadcasts_binary_data_to_rooms, TestNamespace/*exclude*, TestServer/should_receive_all_events_emitted_from_namespaced_client_immediately_and_in_order, TestServer/should_leave_all_rooms_joined_after_a_middleware_failure (panics with a negative WaitGroup counter about once in 25 runs). If another test fails, re-run it alone a few times on the original code before concluding your change caused it.
2. It must be subtle: it should need something specific to manifest (a particular interleaving, a crash or fault at a particular point, a multi-step sequence of operations, an unusual input, or two cooperating sites that each look fine alone), NOT something ordinary use exposes at once. It should look like a plausible refactoring/optimisation/cleanup mistake a maintainer could make. Keep it small (a few lines).
3. Lines calling `vhook.Event(...)`/`vhook.Yield(...)` are tracing no-ops in normal builds; keep them intact and attached to the statements they annotate (you may move them along with those statements, and if you add a new branch that changes the state they describe, keep them truthful). Do not edit internal/vhook or any verif_export.go file, and do not use build tags.
4. Provide a demonstration: a Go test file in the worktree (e.g. seeded_demo_test.go in the package you changed; internal package tests are fine) that FAILS with your change and PASSES on the original code. Verify both ways (save the patch with `git diff -- <changed files> > /tmp/wt/{wt}-out/patch.diff`, revert with `git apply -R`, re-apply with `git apply`). The demo may use timing or goroutine coordination to force the situation but must be reliable (run it 5 times each way). Name the test function TestSeeded<Something>.

Deliverables in /tmp/wt/{wt}-out/: `patch.diff` (git diff of the library change ONLY, not the demo test), a copy of the demo test file, and `meta.json` with keys: "property":"{pid}", "summary" (what the change does), "needs" (what it needs in order to manifest), "files" (changed files), "demo_pkg" (package dir relative to the module root, e.g. "." or "adapter"), "demo_run" (the -run regex), "ran" (what you ran and observed, both ways).

Finish by replying with a 5-line summary only (what you changed, how it manifests, demo package and test name). Leave the worktree with your change applied and the demo test present.""")
