#!/usr/bin/env python3
"""Runs the repository's pinned test suite with the verif tag OFF and compares with BASELINE.json."""
import json, subprocess, sys, os
base = json.load(open("/root/.vp/BASELINE.json"))
env = dict(os.environ, GOFLAGS="-mod=mod", GOPROXY="off", GOSUMDB="off", GOTOOLCHAIN="local")
import tempfile, shutil
src = sys.argv[1] if len(sys.argv) > 1 else "/repo"
tmp = tempfile.mkdtemp(prefix="baseline-")
subprocess.run("git -C %s archive HEAD | tar -x -C %s" % (src, tmp), shell=True, check=True)
print("baseline of", subprocess.run(["git", "-C", src, "log", "--oneline", "-1"], stdout=subprocess.PIPE, text=True).stdout.strip())
p = subprocess.run(["go", "test", "-mod=mod", "-json", "-vet=off", "-count=1", "-timeout", "25m", "./..."],
                   cwd=tmp, env=env, stdout=subprocess.PIPE, stderr=subprocess.STDOUT, text=True)
shutil.rmtree(tmp, ignore_errors=True)
res = {}
for line in p.stdout.splitlines():
    try:
        e = json.loads(line)
    except Exception:
        continue
    if e.get("Test") and e.get("Action") in ("pass", "fail", "skip"):
        res[e["Package"] + "::" + e["Test"]] = e["Action"]
missing = [t for t in base["stable_pass"] if res.get(t) != "pass"]
print("passed %d / failed %d ; stable baseline %d, not passing now: %d" % (
    sum(1 for v in res.values() if v == "pass"), sum(1 for v in res.values() if v == "fail"),
    len(base["stable_pass"]), len(missing)))
for m in missing:
    print("  NOT PASSING:", m, res.get(m))
sys.exit(1 if missing else 0)
