#!/usr/bin/env python3
"""Regenerates MANIFEST.json from props/*.py metadata (each module has META)."""
import json, os, sys, importlib, subprocess
V = os.path.dirname(os.path.dirname(os.path.abspath(__file__)))
sys.path.insert(0, os.path.join(V, "lib")); sys.path.insert(0, os.path.join(V, "props"))
props = [json.loads(l) for l in open(os.path.join(V, "properties.jsonl"))]
checks, na = [], []
for p in props:
    pid = p["id"]
    f = os.path.join(V, "props", pid + ".py")
    meta = None
    if os.path.exists(f):
        meta = getattr(importlib.import_module(pid), "META", None)
    if meta is None or meta.get("not_applicable"):
        na.append({"property_id": pid, "reason": (meta or {}).get("not_applicable", "check not built yet in this session; see DESIGN.md section 5 for the planned decision procedure")})
        continue
    checks.append({
        "property_id": pid,
        "quick_cmd": "./check %s --tier quick" % pid,
        "thorough_cmd": "./check %s --tier thorough" % pid,
        "evidence_file": "/verif/evidence/%s.json" % pid,
        "replay_cmd_template": "./check %s --replay {path}" % pid,
        "engine": "tla-mbv",
        "level_claimed": {"category": meta.get("level", "model_checking"), "text": meta["text"], "design_ref": meta.get("design_ref", "DESIGN.md section 5")},
        "level_note": meta["note"],
        "technique": meta["technique"],
    })
commits = subprocess.run(["git", "-C", "/repo", "log", "--format=%h %s", "--grep=^verif:"], stdout=subprocess.PIPE, text=True).stdout.strip().splitlines()
m = {
    "version": 1,
    "setup_cmd": "cd /verif/harness && cp /repo/go.sum . && GOFLAGS=-mod=mod GOPROXY=off GOSUMDB=off GOTOOLCHAIN=local go vet -tags verif ./... >/dev/null 2>&1; true",
    "hooks": {
        "guard": "verif",
        "enable": "Go build tag: go test -tags verif (drivers live in /verif/harness, a module with `replace github.com/karagenc/socket.io-go => /repo`)",
        "baseline_off_cmd": "cd /repo && GOFLAGS=-mod=mod GOPROXY=off GOSUMDB=off GOTOOLCHAIN=local go test -mod=mod -vet=off -count=1 -timeout 25m ./...",
        "source_commits": [c.split()[0] for c in commits],
        "add_only": True,
    },
    "engines": [{"name": "tla-mbv", "path": "/verif/check", "serves_properties": [c["property_id"] for c in checks],
                 "kind_free_text": "explicit TLA+ specification (spec/*.tla) model-checked with TLC, bound to the Go code by trace validation (hooks under build tag verif -> NDJSON -> spec/trace/*Trace.tla), TLC-generated schedule replay with gates, and vector replay against specification functions"}],
    "checks": checks,
    "not_applicable": na,
    "notes": "See DESIGN.md. Exit 0 held / 1 violation / 2 could not decide (build failure, TLC timeout, driver did not settle). known_findings.json lists recorded findings and fixed defects.",
}
json.dump(m, open(os.path.join(V, "MANIFEST.json"), "w"), indent=1)
print("checks:", [c["property_id"] for c in checks], "n/a:", len(na))
