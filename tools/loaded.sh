#!/bin/bash
# usage: tools/loaded.sh <nburners> "<seeds>" [ids...]  -- the quick tier of every check while <nburners> processes keep cores busy:
# a check that raises an alarm here although the tree is unchanged depends on the machine being idle
n=${1:-12}; shift
for i in $(seq 1 $n); do ( while :; do :; done ) & pids="$pids $!"; done
trap "kill $pids 2>/dev/null" EXIT
/verif/tools/robust.sh "$@"
