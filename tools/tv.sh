#!/bin/bash
# usage: tools/tv.sh <TraceModule> <trace.ndjson>   -- one manual trace validation run, prints the verdict lines
rm -rf /tmp/tl; mkdir -p /tmp/tl; cp /verif/spec/*.tla /verif/spec/trace/$1.tla /verif/spec/trace/$1.cfg /tmp/tl/; cp $2 /tmp/tl/trace.ndjson
cd /tmp/tl && timeout 600 tlc -workers 1 -metadir /tmp/tl/md -config $1.cfg $1.tla 2>&1 | grep -v "^/\\\\\|^$\|^      \|^Semantic\|^Linting\|^Parsing" | grep -i "reject\|error\|DEVIATION\|states generated\|MISMATCH" | head -${3:-12}
