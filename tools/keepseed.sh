#!/bin/bash
# usage: keepseed.sh <name> <pkgdir-relative> <run-regex> [extra go test flags]
# confirms in the agent's scratch worktree that the demo fails with the change and passes without it,
# stores the seed under /verif/seeded/<name>/ and removes the worktree.
set -u
N=$1; PKG=$2; RUN=$3; shift 3
export GOFLAGS=-mod=mod GOPROXY=off GOSUMDB=off GOTOOLCHAIN=local
W=/tmp/wt/$N; O=/tmp/wt/$N-out
cd $W || exit 3
# state: change applied + demo present
go build ./... || { echo "does not build"; exit 3; }
go test -vet=off -count=1 -run "$RUN" "$@" ./$PKG > $O/with.log 2>&1; with=$?
git apply -R $O/patch.diff || { echo "cannot revert patch"; exit 3; }
go test -vet=off -count=1 -run "$RUN" "$@" ./$PKG > $O/without.log 2>&1; without=$?
echo "demo with change: exit $with ; without: exit $without"
if [ $with -ne 0 ] && [ $without -eq 0 ]; then
  mkdir -p /verif/seeded/$N
  cp $O/patch.diff $O/meta.json /verif/seeded/$N/ 2>/dev/null
  cp $O/*_test.go /verif/seeded/$N/ 2>/dev/null
  for f in /verif/seeded/$N/*_test.go; do mv "$f" "${f%.go}.go.txt"; done
  echo "kept /verif/seeded/$N"
else
  echo "NOT CONFIRMED"; tail -5 $O/with.log $O/without.log
fi
cd /; git -C /repo worktree remove --force $W; rm -rf $O
