#!/bin/bash
# usage: tools/thorough.sh [ids...]  -- runs the thorough tier of every check on the unchanged tree, one line each
cd /verif
ids=${@:-"C01 C02 C03 C04 C05 C06 C07 C08 C09 C10 C11 C12 C13 C14 C15 C16 C17 C18 C19"}
for id in $ids; do
  t0=$(date +%s); ./check $id --tier thorough > /tmp/thorough_${id}.log 2>&1; rc=$?
  echo "$id rc=$rc $(( $(date +%s) - t0 ))s $(tail -1 /tmp/thorough_${id}.log | cut -c1-130)"
done
