----------------------------- MODULE MCDelivery -----------------------------
EXTENDS Delivery
AttMix == [p \in Packets |-> IF p[2] = 1 THEN 1 ELSE 0]
AttTwo == [p \in Packets |-> IF p[1] = "g1" THEN 2 ELSE 0]
=============================================================================
