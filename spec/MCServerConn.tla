---------------------------- MODULE MCServerConn ----------------------------
EXTENDS ServerConn
\* chains for the bounded configurations (cfg files cannot write functions of sequences)
ChainAR == [n \in Nsps |-> IF n = "a" THEN <<"accept", "accept">> ELSE <<"accept", "reject">>]
ChainA  == [n \in Nsps |-> <<"accept">>]
=============================================================================
