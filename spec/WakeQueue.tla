----------------------------- MODULE WakeQueue -----------------------------
(***************************************************************************)
(* The two check-then-wait hand-off queues of socket.io-go at the          *)
(* granularity of their critical sections (property C19; reused by C01,    *)
(* C02, C07, C14).                                                         *)
(*                                                                         *)
(*   Kind = "poll"    engine.io/transport/polling/poll_queue.go            *)
(*                    producers: ServerTransport.Send -> pollQueue.add     *)
(*                    consumers: GET requests -> pollQueue.poll            *)
(*   Kind = "packet"  packet_queue.go                                      *)
(*                    producers: serverConn.packet / Manager.packet        *)
(*                    consumer : the sender goroutine (pollAndSend)        *)
(*                    closer   : waitForDrain ; close      (or reset)      *)
(*                                                                         *)
(* One action per critical section / channel operation.  Deviations from   *)
(* the intended design are named and switched on with the constant Dev:    *)
(*   "UnbufferedReady"  the wake-up channel has no buffer: a signal sent   *)
(*                      while no consumer sits in the select is dropped    *)
(*   "StaleTimeout"     the poll time-out returns the result of the first  *)
(*                      get instead of looking at the queue again          *)
(*   "SignalBeforeAppend" the producer signals first and appends later     *)
(***************************************************************************)
EXTENDS Naturals, Sequences, FiniteSets, TLC

CONSTANTS Kind, Producers, Consumers, Closers, MaxPolls, Dev, TimeoutOn, CloserMode

ASSUME Kind \in {"poll", "packet"}
ASSUME CloserMode \in {"close", "reset", "none"}

VARIABLES
    q,        \* the queue: sequence of packet ids (a producer's id is its packet)
    tok,      \* pending wake-up signals in `ready` (0 or 1)
    ppc,      \* producer pc:  "start" | "sig" | "app" | "done"
    cpc,      \* consumer pc
    cur,      \* what the running poll of a consumer holds
    npoll,    \* polls completed by a consumer
    got,      \* got[c] : sequence of poll results (history)
    taken,    \* packets in the order the queue handed them out (history)
    added,    \* packets in the order they were appended (history)
    cleared,  \* number of packets dropped by close/reset (history)
    sent,     \* "packet": what pollAndSend passed to the transport, in order
    closeTok, resetTok, closed,
    kpc,      \* closer pc: "start" | "dwait" | "close" | "done"
    badEmpty  \* history: a poll answered empty although the queue was not empty
              \*          when it decided to answer

vars == <<q, tok, ppc, cpc, cur, npoll, got, taken, added, cleared, sent,
          closeTok, resetTok, closed, kpc, badEmpty>>

Buffered == "UnbufferedReady" \notin Dev

Init ==
    /\ q = <<>> /\ tok = 0
    /\ ppc = [p \in Producers |-> "start"]
    /\ cpc = [c \in Consumers |-> "start"]
    /\ cur = [c \in Consumers |-> <<>>]
    /\ npoll = [c \in Consumers |-> 0]
    /\ got = [c \in Consumers |-> <<>>]
    /\ taken = <<>> /\ added = <<>> /\ cleared = 0 /\ sent = <<>>
    /\ closeTok = 0 /\ resetTok = 0 /\ closed = FALSE
    /\ kpc = [k \in Closers |-> "start"]
    /\ badEmpty = FALSE

Parked == {c \in Consumers : cpc[c] = "wait"}

(***************************************************************************)
(* Signal: the non-blocking send on `ready`.                               *)
(***************************************************************************)
Signal ==
    IF Buffered
      THEN /\ tok' = 1
           /\ UNCHANGED cpc
      ELSE \* unbuffered: succeeds only if a consumer is in the select right now
           /\ tok' = tok
           /\ IF Parked # {}
                THEN \E c \in Parked : cpc' = [cpc EXCEPT ![c] = "get2"]
                ELSE UNCHANGED cpc

(***************************************************************************)
(* Producers                                                               *)
(***************************************************************************)
\* pollQueue.add: lock; append; non-blocking send; unlock -- one critical section
PollAdd(p, pkts, nxt) ==
    /\ Kind = "poll" /\ ppc[p] = "start"
    /\ q' = q \o pkts /\ added' = added \o pkts
    /\ Signal
    /\ ppc' = [ppc EXCEPT ![p] = nxt]
    /\ UNCHANGED <<cur, npoll, got, taken, cleared, sent, closeTok, resetTok, closed, kpc, badEmpty>>

\* packetQueue.add: append under the mutex ...
PktAppend(p, pkts) ==
    /\ Kind = "packet" /\ "SignalBeforeAppend" \notin Dev /\ ppc[p] = "start"
    /\ q' = q \o pkts /\ added' = added \o pkts
    /\ ppc' = [ppc EXCEPT ![p] = "sig"]
    /\ UNCHANGED <<tok, cpc, cur, npoll, got, taken, cleared, sent, closeTok, resetTok, closed, kpc, badEmpty>>

\* ... signal after unlocking (yield point pq.add.beforeSignal sits in between)
PktSignal(p, nxt) ==
    /\ Kind = "packet" /\ ppc[p] = "sig"
    /\ Signal
    /\ ppc' = [ppc EXCEPT ![p] = IF "SignalBeforeAppend" \in Dev THEN "app" ELSE nxt]
    /\ UNCHANGED <<q, cur, npoll, got, taken, added, cleared, sent, closeTok, resetTok, closed, kpc, badEmpty>>

\* deviation: signal first
DevSigFirst(p) ==
    /\ Kind = "packet" /\ "SignalBeforeAppend" \in Dev /\ ppc[p] = "start"
    /\ ppc' = [ppc EXCEPT ![p] = "sig"]
    /\ UNCHANGED <<q, tok, cpc, cur, npoll, got, taken, added, cleared, sent, closeTok, resetTok, closed, kpc, badEmpty>>
DevAppendLate(p) ==
    /\ Kind = "packet" /\ ppc[p] = "app"
    /\ q' = Append(q, p) /\ added' = Append(added, p)
    /\ ppc' = [ppc EXCEPT ![p] = "done"]
    /\ UNCHANGED <<tok, cpc, cur, npoll, got, taken, cleared, sent, closeTok, resetTok, closed, kpc, badEmpty>>

(***************************************************************************)
(* Consumers                                                               *)
(***************************************************************************)
TakeAll(c) == /\ cur' = [cur EXCEPT ![c] = q]
              /\ taken' = taken \o q
              /\ q' = <<>>

\* first get() of poll
Get1(c) ==
    /\ cpc[c] = "start"
    /\ TakeAll(c)
    /\ cpc' = [cpc EXCEPT ![c] = IF q # <<>> THEN (IF Kind = "poll" THEN "ret" ELSE "send") ELSE "bw"]
    /\ UNCHANGED <<tok, ppc, npoll, got, added, cleared, sent, closeTok, resetTok, closed, kpc, badEmpty>>

\* entering the select (yield point *.poll.beforeWait sits just before)
Park(c) ==
    /\ cpc[c] = "bw"
    /\ cpc' = [cpc EXCEPT ![c] = "wait"]
    /\ UNCHANGED <<q, tok, ppc, cur, npoll, got, taken, added, cleared, sent, closeTok, resetTok, closed, kpc, badEmpty>>

\* receive on `ready`
Wake(c) ==
    /\ cpc[c] = "wait" /\ Buffered /\ tok = 1
    /\ tok' = 0
    /\ cpc' = [cpc EXCEPT ![c] = "get2"]
    /\ UNCHANGED <<q, ppc, cur, npoll, got, taken, added, cleared, sent, closeTok, resetTok, closed, kpc, badEmpty>>

\* second get() of poll.  poll queue: an empty result either goes back to
\* waiting (the repaired loop) or is returned (the queue *was* empty at this
\* get, so the answer is honest); both satisfy C19.
Get2(c) ==
    /\ cpc[c] = "get2"
    /\ TakeAll(c)
    /\ IF Kind = "poll"
         THEN IF q # <<>> THEN cpc' = [cpc EXCEPT ![c] = "ret"]
                          ELSE \E nxt \in {"wait", "ret"} : cpc' = [cpc EXCEPT ![c] = nxt]
         ELSE cpc' = [cpc EXCEPT ![c] = "drainsig"]
    /\ UNCHANGED <<tok, ppc, npoll, got, added, cleared, sent, closeTok, resetTok, closed, kpc, badEmpty>>

\* poll time-out (poll queue only).  Intended: look again, return what is there.
Timeout(c) ==
    /\ Kind = "poll" /\ TimeoutOn /\ cpc[c] = "wait"
    /\ IF "StaleTimeout" \in Dev
         THEN /\ cpc' = [cpc EXCEPT ![c] = "ret"]     \* cur[c] is still the empty first result
              /\ badEmpty' = (badEmpty \/ q # <<>>)
         ELSE /\ cpc' = [cpc EXCEPT ![c] = "get2t"]
              /\ UNCHANGED badEmpty
    /\ UNCHANGED <<q, tok, ppc, cur, npoll, got, taken, added, cleared, sent, closeTok, resetTok, closed, kpc>>

GetT(c) ==
    /\ cpc[c] = "get2t"
    /\ TakeAll(c)
    /\ cpc' = [cpc EXCEPT ![c] = "ret"]
    /\ UNCHANGED <<tok, ppc, npoll, got, added, cleared, sent, closeTok, resetTok, closed, kpc, badEmpty>>

\* poll returns
Ret(c) ==
    /\ cpc[c] = "ret"
    /\ got' = [got EXCEPT ![c] = Append(@, cur[c])]
    /\ npoll' = [npoll EXCEPT ![c] = @ + 1]
    /\ cpc' = [cpc EXCEPT ![c] = IF npoll[c] + 1 < MaxPolls THEN "start" ELSE "done"]
    /\ cur' = [cur EXCEPT ![c] = <<>>]
    /\ UNCHANGED <<q, tok, ppc, taken, added, cleared, sent, closeTok, resetTok, closed, kpc, badEmpty>>

\* packet queue only -----------------------------------------------------
WakeClose(c) ==
    /\ Kind = "packet" /\ cpc[c] = "wait" /\ closeTok = 1
    /\ closeTok' = 0
    /\ cpc' = [cpc EXCEPT ![c] = "exit"]
    /\ UNCHANGED <<q, tok, ppc, cur, npoll, got, taken, added, cleared, sent, resetTok, closed, kpc, badEmpty>>

\* non-blocking send on `drain` (unbuffered: needs a parked waitForDrain)
DrainSig(c) ==
    /\ Kind = "packet" /\ cpc[c] = "drainsig"
    /\ LET W == {k \in Closers : kpc[k] = "dwait"} IN
         IF W # {} THEN \E k \in W : kpc' = [kpc EXCEPT ![k] = "close"]
                   ELSE UNCHANGED kpc
    /\ cpc' = [cpc EXCEPT ![c] = IF cur[c] # <<>> THEN "send" ELSE "start"]
    /\ UNCHANGED <<q, tok, ppc, cur, npoll, got, taken, added, cleared, sent, closeTok, resetTok, closed, badEmpty>>

\* socket.Send(packets...) in pollAndSend
SendOut(c) ==
    /\ Kind = "packet" /\ cpc[c] = "send"
    /\ sent' = sent \o cur[c]
    /\ got' = [got EXCEPT ![c] = Append(@, cur[c])]
    /\ npoll' = [npoll EXCEPT ![c] = @ + 1]
    /\ cur' = [cur EXCEPT ![c] = <<>>]
    /\ cpc' = [cpc EXCEPT ![c] = IF npoll[c] + 1 < MaxPolls THEN "start" ELSE "done"]
    /\ UNCHANGED <<q, tok, ppc, taken, added, cleared, closeTok, resetTok, closed, kpc, badEmpty>>

(***************************************************************************)
(* Closer: waitForDrain ; close   (serverConn.closePacketQueue)            *)
(*         or reset               (Manager on reconnect)                   *)
(***************************************************************************)
WaitDrainCheck(k) ==
    /\ Kind = "packet" /\ CloserMode = "close" /\ kpc[k] = "start"
    /\ kpc' = [kpc EXCEPT ![k] = IF q = <<>> THEN "close" ELSE "dwait"]
    /\ UNCHANGED <<q, tok, ppc, cpc, cur, npoll, got, taken, added, cleared, sent, closeTok, resetTok, closed, badEmpty>>

WaitDrainReset(k) ==
    /\ Kind = "packet" /\ kpc[k] = "dwait" /\ resetTok = 1
    /\ resetTok' = 0
    /\ kpc' = [kpc EXCEPT ![k] = "close"]
    /\ UNCHANGED <<q, tok, ppc, cpc, cur, npoll, got, taken, added, cleared, sent, closeTok, closed, badEmpty>>

WaitDrainTimeout(k) ==
    /\ Kind = "packet" /\ TimeoutOn /\ kpc[k] = "dwait"
    /\ kpc' = [kpc EXCEPT ![k] = "close"]
    /\ UNCHANGED <<q, tok, ppc, cpc, cur, npoll, got, taken, added, cleared, sent, closeTok, resetTok, closed, badEmpty>>

CloseEffect ==
    /\ cleared' = cleared + Len(q)
    /\ q' = <<>> /\ closeTok' = 1 /\ closed' = TRUE
    /\ UNCHANGED <<tok, ppc, cpc, cur, npoll, got, taken, added, sent, resetTok, badEmpty>>

Close(k) ==
    /\ Kind = "packet" /\ kpc[k] = "close"
    /\ CloseEffect
    /\ kpc' = [kpc EXCEPT ![k] = "done"]

ResetEffect ==
    /\ cleared' = cleared + Len(q)
    /\ q' = <<>> /\ resetTok' = 1
    /\ UNCHANGED <<tok, ppc, cpc, cur, npoll, got, taken, added, sent, closeTok, closed, badEmpty>>

Reset(k) ==
    /\ Kind = "packet" /\ CloserMode = "reset" /\ kpc[k] = "start"
    /\ ResetEffect
    /\ kpc' = [kpc EXCEPT ![k] = "done"]

Next ==
    \/ \E p \in Producers : PollAdd(p, <<p>>, "done") \/ PktAppend(p, <<p>>) \/ PktSignal(p, "done")
                            \/ DevSigFirst(p) \/ DevAppendLate(p)
    \/ \E c \in Consumers : Get1(c) \/ Park(c) \/ Wake(c) \/ Get2(c) \/ Timeout(c) \/ GetT(c) \/ Ret(c)
                            \/ WakeClose(c) \/ DrainSig(c) \/ SendOut(c)
    \/ \E k \in Closers : WaitDrainCheck(k) \/ WaitDrainReset(k) \/ WaitDrainTimeout(k) \/ Close(k) \/ Reset(k)

Spec == Init /\ [][Next]_vars

Fairness ==
    /\ \A p \in Producers : WF_vars(PollAdd(p, <<p>>, "done") \/ PktAppend(p, <<p>>) \/ PktSignal(p, "done")
                                    \/ DevSigFirst(p) \/ DevAppendLate(p))
    /\ \A c \in Consumers : WF_vars(Get1(c) \/ Park(c) \/ Wake(c) \/ Get2(c) \/ GetT(c) \/ Ret(c)
                                    \/ WakeClose(c) \/ DrainSig(c) \/ SendOut(c))
    /\ \A k \in Closers : WF_vars(WaitDrainCheck(k) \/ WaitDrainReset(k) \/ Close(k) \/ Reset(k))

FairSpec == Spec /\ Fairness

(***************************************************************************)
(* Properties                                                              *)
(***************************************************************************)
TypeOK ==
    /\ tok \in {0, 1} /\ closeTok \in {0, 1} /\ resetTok \in {0, 1}
    /\ \A c \in Consumers : cpc[c] \in {"start", "bw", "wait", "get2", "get2t", "ret", "send", "drainsig", "exit", "done"}
    /\ \A p \in Producers : ppc[p] \in {"start", "sig", "app", "done"}

ProducerPending == \E p \in Producers : ppc[p] \in {"sig", "app"}

\* A consumer that can still look at the queue without any further signal.
Active(c) == cpc[c] \in {"start", "get2", "get2t"}

\* C19: packets sit in the queue, a consumer sleeps in the select, and nothing
\* in flight is going to wake it: only a time-out or an unrelated later add
\* would flush the queue.
Stranded ==
    /\ q # <<>>
    /\ Parked # {}
    /\ tok = 0
    /\ ~ProducerPending
    /\ \A c \in Consumers : ~Active(c)
    /\ closeTok = 0

NoStranded == ~Stranded

\* a poll never answers empty while packets are queued
EmptyOnlyIfEmpty == ~badEmpty

\* the queue hands packets out in the order they were added, each exactly once
FifoExactlyOnce ==
    /\ cleared = 0 => taken \o q = added
    /\ \A i, j \in 1..Len(taken) : i # j => taken[i] # taken[j]

\* what the sender goroutine transmits is what it took, in order
SentInOrder == Kind = "packet" =>
    \E n \in 0..Len(taken) : sent = SubSeq(taken, 1, n)

\* at a terminal state of a run without close/reset every packet was handed out,
\* unless every consumer has used up its polls
AllDone == /\ \A p \in Producers : ppc[p] = "done"
TerminalOK ==
    (~ENABLED Next /\ cleared = 0 /\ ~closed) =>
        (q = <<>> \/ \A c \in Consumers : cpc[c] \in {"done", "exit"})

\* liveness (with TimeoutOn = FALSE): every added packet is eventually taken,
\* as long as some consumer still has polls left
EventuallyTaken ==
    \A p \in Producers :
        [](ppc[p] = "done" /\ cleared = 0 /\ ~closed =>
              <>(\/ \E i \in 1..Len(taken) : taken[i] = p
                 \/ \A c \in Consumers : cpc[c] \in {"done", "exit"}
                 \/ cleared > 0 \/ closed))

\* after close the sender goroutine exits (if it ever goes idle)
SenderTerminates ==
    Kind = "packet" =>
      \A c \in Consumers : [](closed => <>(cpc[c] \in {"exit", "done"}))
=============================================================================
