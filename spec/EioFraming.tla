----------------------------- MODULE EioFraming -----------------------------
(***************************************************************************)
(* Engine.IO v4 framing as functions over byte sequences (property C11):   *)
(*   engine.io/parser/packet.go    Packet.Encode / Decode / EncodedLen     *)
(*   engine.io/parser/payload.go   EncodePayloads / DecodePayloads /       *)
(*                                 EncodedPayloadsLen (separator 0x1e)     *)
(*   engine.io/transport/webtransport/packet.go  send / nextPacket         *)
(*                                 (1 / 3 / 9 byte length prefix, binary   *)
(*                                 flag in the top bit)                    *)
(* A packet is [type |-> 0..6, bin |-> BOOLEAN, data |-> Seq(0..255)];     *)
(* binary packets are always of type 4 (message).                          *)
(***************************************************************************)
EXTENDS Naturals, Sequences, TLC

Sep == 30            \* record separator between packets of a payload
BChar == 98          \* 'b' : base64 marker
TypeChar(t) == 48 + t

(***************************************************************************)
(* base64 (standard alphabet, padded)                                      *)
(***************************************************************************)
B64Alphabet == <<65,66,67,68,69,70,71,72,73,74,75,76,77,78,79,80,81,82,83,84,85,86,87,88,89,90,
                 97,98,99,100,101,102,103,104,105,106,107,108,109,110,111,112,113,114,115,116,117,118,119,120,121,122,
                 48,49,50,51,52,53,54,55,56,57,43,47>>
Pad == 61

\* the textbook definition, group by group ...
RECURSIVE B64Rec(_)
B64Rec(d) ==
    IF d = <<>> THEN <<>>
    ELSE IF Len(d) = 1 THEN
        <<B64Alphabet[(d[1] \div 4) + 1], B64Alphabet[((d[1] % 4) * 16) + 1], Pad, Pad>>
    ELSE IF Len(d) = 2 THEN
        <<B64Alphabet[(d[1] \div 4) + 1], B64Alphabet[((d[1] % 4) * 16 + d[2] \div 16) + 1],
          B64Alphabet[((d[2] % 16) * 4) + 1], Pad>>
    ELSE
        <<B64Alphabet[(d[1] \div 4) + 1], B64Alphabet[((d[1] % 4) * 16 + d[2] \div 16) + 1],
          B64Alphabet[((d[2] % 16) * 4 + d[3] \div 64) + 1], B64Alphabet[(d[3] % 64) + 1]>>
        \o B64Rec(SubSeq(d, 4, Len(d)))
\* ... and the same function character by character (no recursion: usable on packets of many KiB)
B64(d) ==
    LET n == Len(d)
        At(k) == IF k <= n THEN d[k] ELSE 0
        Ch(i) == LET g == (i - 1) \div 4   pos == (i - 1) % 4
                     b1 == At(3 * g + 1)  b2 == At(3 * g + 2)  b3 == At(3 * g + 3) IN
                 CASE pos = 0 -> B64Alphabet[(b1 \div 4) + 1]
                   [] pos = 1 -> B64Alphabet[((b1 % 4) * 16 + b2 \div 16) + 1]
                   [] pos = 2 -> IF 3 * g + 2 > n THEN Pad ELSE B64Alphabet[((b2 % 16) * 4 + b3 \div 64) + 1]
                   [] pos = 3 -> IF 3 * g + 3 > n THEN Pad ELSE B64Alphabet[(b3 % 64) + 1]
    IN [i \in 1..(4 * ((n + 2) \div 3)) |-> Ch(i)]
ASSUME \A d \in {<<>>, <<0>>, <<255>>, <<1, 2>>, <<255, 254>>, <<77, 97, 110>>, <<1, 2, 3, 4>>, <<250, 251, 252, 253, 254>>,
                 <<0, 30, 97, 255, 128, 64, 7>>} : B64(d) = B64Rec(d)

B64Len(n) == 4 * ((n + 2) \div 3)

(***************************************************************************)
(* single packets                                                          *)
(***************************************************************************)
EncPacket(p, supportsBinary) ==
    IF p.bin THEN (IF supportsBinary THEN p.data ELSE <<BChar>> \o B64(p.data))
    ELSE <<TypeChar(p.type)>> \o p.data

EncodedLen(p, supportsBinary) ==
    IF p.bin THEN (IF supportsBinary THEN Len(p.data) ELSE 1 + B64Len(Len(p.data)))
    ELSE 1 + Len(p.data)

(***************************************************************************)
(* long-polling payloads                                                   *)
(***************************************************************************)
RECURSIVE EncPayload(_)
EncPayload(ps) ==
    IF ps = <<>> THEN <<>>
    ELSE IF Len(ps) = 1 THEN EncPacket(ps[1], FALSE)
    ELSE EncPacket(ps[1], FALSE) \o <<Sep>> \o EncPayload(Tail(ps))

RECURSIVE SumLen(_)
SumLen(ps) == IF ps = <<>> THEN 0 ELSE EncodedLen(ps[1], FALSE) + SumLen(Tail(ps))
EncodedPayloadLen(ps) == IF ps = <<>> THEN 0 ELSE SumLen(ps) + Len(ps) - 1

(***************************************************************************)
(* WebTransport frames                                                     *)
(***************************************************************************)
Flag(bin) == IF bin THEN 128 ELSE 0

RECURSIVE BE(_, _)
BE(n, k) == IF k = 0 THEN <<>> ELSE BE(n \div 256, k - 1) \o <<n % 256>>    \* k-byte big-endian

FrameHeader(n, bin) ==
    IF n < 126 THEN <<n + Flag(bin)>>
    ELSE IF n < 65536 THEN <<126 + Flag(bin)>> \o BE(n, 2)
    ELSE <<127 + Flag(bin)>> \o BE(n, 8)

RECURSIVE FromBE(_)
FromBE(bs) == IF bs = <<>> THEN 0 ELSE FromBE(SubSeq(bs, 1, Len(bs) - 1)) * 256 + bs[Len(bs)]

\* what a reader must conclude from a header
ParseHeader(h) ==
    LET b == h[1]  bin == b >= 128  l == b % 128 IN
    IF l < 126 THEN [len |-> l, bin |-> bin, hdr |-> 1]
    ELSE IF l = 126 THEN [len |-> FromBE(SubSeq(h, 2, 3)), bin |-> bin, hdr |-> 3]
    ELSE [len |-> FromBE(SubSeq(h, 2, 9)), bin |-> bin, hdr |-> 9]

Frame(p) == FrameHeader(EncodedLen(p, TRUE), p.bin) \o EncPacket(p, TRUE)

(***************************************************************************)
(* Bounded exhaustive checks of the specification itself                   *)
(***************************************************************************)
CONSTANTS Bytes, MaxData, MaxFrameLen

RECURSIVE SeqsUpTo(_)
SeqsUpTo(n) == IF n = 0 THEN {<<>>}
               ELSE LET S == SeqsUpTo(n - 1) IN S \cup {Append(s, x) : s \in {t \in S : Len(t) = n - 1}, x \in Bytes}

Packets == [type : 0..6, bin : {FALSE}, data : SeqsUpTo(MaxData)]
           \cup [type : {4}, bin : {TRUE}, data : SeqsUpTo(MaxData)]

\* advertised length = real length, in every mode
LenAgrees == \A p \in Packets, sb \in BOOLEAN : Len(EncPacket(p, sb)) = EncodedLen(p, sb)
PayloadLenAgrees == \A p \in Packets, q \in Packets :
                       Len(EncPayload(<<p, q>>)) = EncodedPayloadLen(<<p, q>>)
\* the length prefix is invertible for every frame length and both flag values
HeaderRoundTrip == \A n \in 0..MaxFrameLen, b \in BOOLEAN :
                       LET h == FrameHeader(n, b) r == ParseHeader(h) IN
                         r.len = n /\ r.bin = b /\ r.hdr = Len(h)
\* the three forms are used exactly on their ranges
HeaderForm == \A n \in 0..MaxFrameLen :
                  Len(FrameHeader(n, FALSE)) = (IF n < 126 THEN 1 ELSE IF n < 65536 THEN 3 ELSE 9)

VARIABLE dummy
Init == dummy = 0
Next == UNCHANGED dummy
Spec == Init /\ [][Next]_dummy
Inv == LenAgrees /\ PayloadLenAgrees /\ HeaderRoundTrip /\ HeaderForm
=============================================================================
