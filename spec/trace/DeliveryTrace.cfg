SPECIFICATION TraceSpec
INVARIANTS FramesContiguous
CONSTRAINT HWM
POSTCONDITION TraceAccepted
CHECK_DEADLOCK FALSE
