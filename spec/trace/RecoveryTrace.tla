---------------------------- MODULE RecoveryTrace ----------------------------
(***************************************************************************)
(* C08 bindings.                                                           *)
(*  Hook records of the real sessionAwareAdapter (under its mutex):        *)
(*    log.append, clean.start / clean.end, session.persist, session.restore*)
(*  are validated against the specification's log and session table.  Times*)
(*  are microseconds since the harness started; every comparison with the  *)
(*  window W has a tolerance inside which both outcomes are accepted.      *)
(*  `e2e` records: one client session observed end to end (raw protocol    *)
(*  client or Go client): what was addressed to it vs what it received.    *)
(***************************************************************************)
EXTENDS Naturals, Sequences, FiniteSets, Json, TLC

TraceLog == ndJsonDeserialize("trace.ndjson")
VARIABLES l, log, sessions, w, tol, cstart, mem, lastOk, rstart
tvars == <<l, log, sessions, w, tol, cstart, mem, lastOk, rstart>>
ASSUME TLCSet(1, 0)
Rec == TraceLog[l]
IsEvent(e) == /\ l <= Len(TraceLog) /\ TraceLog[l].ev = e /\ l' = l + 1

SeqToSet(q) == {q[i] : i \in 1..Len(q)}
Match(R, T, E) == (T = {} \/ R \cap T # {}) /\ R \cap E = {}
Ids(q) == [i \in 1..Len(q) |-> q[i].id]
Range(q) == {q[i] : i \in 1..Len(q)}
IsSubSeq(a, b) == \* a is a subsequence of b (ids are unique)
    /\ Range(a) \subseteq Range(b)
    /\ \A i, j \in 1..Len(a) : i < j =>
          (CHOOSE x \in 1..Len(b) : b[x] = a[i]) < (CHOOSE x \in 1..Len(b) : b[x] = a[j])

TraceInit == l = 1 /\ log = <<>> /\ sessions = <<>> /\ w = 0 /\ tol = 0 /\ cstart = 0 /\ mem = <<>> /\ lastOk = FALSE /\ rstart = 0
TReset == /\ IsEvent("reset") /\ log' = <<>> /\ sessions' = <<>> /\ cstart' = 0 /\ mem' = <<>> /\ lastOk' = FALSE /\ rstart' = 0
          /\ w' = (IF "W" \in DOMAIN Rec THEN Rec.W ELSE 0) /\ tol' = (IF "tol" \in DOMAIN Rec THEN Rec.tol ELSE 0)

TAppend == /\ IsEvent("log.append")
           /\ log' = Append(log, [id |-> Rec.id, T |-> SeqToSet(Rec.T), E |-> SeqToSet(Rec.E), at |-> Rec.at])
           /\ UNCHANGED <<sessions, w, tol, cstart, mem, lastOk, rstart>>

TPersist == /\ IsEvent("session.persist")
            /\ sessions' = [p \in DOMAIN sessions \cup {Rec.pid} |->
                              IF p = Rec.pid THEN [sid |-> Rec.sid, rooms |-> SeqToSet(Rec.rooms), at |-> Rec.at] ELSE sessions[p]]
            \* on a real server the persisted rooms are exactly the socket's rooms at that moment
            /\ (Rec.sid \in DOMAIN mem => SeqToSet(Rec.rooms) = mem[Rec.sid])
            /\ UNCHANGED <<log, w, tol, cstart, mem, lastOk, rstart>>

\* room membership (hooks of the embedded in-memory adapter)
MemOf(s) == IF s \in DOMAIN mem THEN mem[s] ELSE {}
TRoomsAdd == /\ IsEvent("rooms.add")
             /\ mem' = [x \in DOMAIN mem \cup {Rec.sid} |-> IF x = Rec.sid THEN MemOf(Rec.sid) \cup SeqToSet(Rec.rooms) ELSE mem[x]]
             /\ UNCHANGED <<log, sessions, w, tol, cstart, lastOk, rstart>>
TRoomsDel == /\ IsEvent("rooms.del")
             /\ mem' = [x \in DOMAIN mem |-> IF x = Rec.sid THEN mem[x] \ {Rec.room} ELSE mem[x]]
             /\ UNCHANGED <<log, sessions, w, tol, cstart, lastOk, rstart>>
TRoomsDelAll == /\ IsEvent("rooms.delall")
                /\ mem' = [x \in DOMAIN mem \ {Rec.sid} |-> mem[x]]
                /\ UNCHANGED <<log, sessions, w, tol, cstart, lastOk, rstart>>

TCleanStart == IsEvent("clean.start") /\ cstart' = Rec.now /\ UNCHANGED <<log, sessions, w, tol, mem, lastOk, rstart>>

\* a clean-up pass [cstart, now]: whatever had not expired by the end of the pass must survive,
\* nothing is invented, the order is kept
TCleanEnd ==
    /\ IsEvent("clean.end")
    /\ IsSubSeq(Rec.ids, Ids(log))
    /\ \A i \in 1..Len(log) : (log[i].at + w > Rec.now + tol) => log[i].id \in SeqToSet(Rec.ids)
    /\ SeqToSet(Rec.pids) \subseteq DOMAIN sessions
    /\ \A p \in DOMAIN sessions : (sessions[p].at + w > Rec.now + tol) => p \in SeqToSet(Rec.pids)
    /\ log' = SelectSeq(log, LAMBDA e : e.id \in SeqToSet(Rec.ids))
    /\ sessions' = [p \in SeqToSet(Rec.pids) |-> sessions[p]]
    /\ UNCHANGED <<w, tol, cstart, mem, lastOk, rstart>>

IndexOf(id) == IF \E i \in 1..Len(log) : log[i].id = id THEN CHOOSE i \in 1..Len(log) : log[i].id = id ELSE 0

TRestoreStart == /\ IsEvent("session.restore.start") /\ rstart' = Rec.now
                 /\ UNCHANGED <<log, sessions, w, tol, cstart, mem, lastOk>>

\* RestoreSession: verdict and missed packets must be the specification's
TRestore ==
    /\ IsEvent("session.restore")
    /\ LET known == Rec.pid \in DOMAIN sessions
           at == IF known THEN sessions[Rec.pid].at ELSE 0
           \* the decision was taken between the call's start (rstart) and this record (Rec.now): expired for sure
           \* only if it was so at the start, fresh for sure only if it still is at the end
           surelyExpired == known /\ (IF rstart > 0 THEN rstart ELSE Rec.now) > at + w + tol
           surelyFresh == known /\ Rec.now < at + w - tol
           k == IndexOf(Rec.offset) IN
         /\ Rec.ok => (known /\ ~surelyExpired /\ k # 0)
         /\ (known /\ surelyFresh /\ k # 0) => Rec.ok
         /\ Rec.ok => Rec.missed = Ids(SelectSeq(SubSeq(log, k + 1, Len(log)),
                                                 LAMBDA e : Match(sessions[Rec.pid].rooms, e.T, e.E)))
         /\ sessions' = IF known /\ ~Rec.ok /\ Rec.why = "expired"
                          THEN [p \in DOMAIN sessions \ {Rec.pid} |-> sessions[p]] ELSE sessions
    /\ lastOk' = Rec.ok                                    \* the verdict the socket and the client must report
    /\ UNCHANGED <<log, w, tol, cstart, mem, rstart>>

\* one client session end to end
E2EOK(r) ==
    LET rc == r.received IN
    /\ r.recovered = lastOk                                  \* what RestoreSession decided (TRestore checked that decision against the window)
    /\ r.intact                                              \* binary events arrive (also when replayed) with their attachments
    /\ r.clientRecovered = r.recovered                       \* what the client API reports is this connect's verdict
    /\ r.recovered => /\ r.sameSid /\ r.roomsOk
                      /\ \A i \in 1..(Len(rc) - 1) : \A j \in (i + 1)..Len(rc) : rc[i] # rc[j]    \* nothing twice
                      /\ SeqToSet(r.addressed) \subseteq SeqToSet(rc)                          \* no gap
                      /\ IsSubSeq(r.addressed, rc)                                               \* emission order
                      /\ (r.strict => SeqToSet(rc) \subseteq SeqToSet(r.addressed))              \* and nothing else
    /\ ~r.recovered => ~r.sameSid
TE2E == /\ IsEvent("e2e") /\ (IF E2EOK(Rec) THEN TRUE ELSE PrintT(<<"STEP_MISMATCH", l>>))
        /\ UNCHANGED <<log, sessions, w, tol, cstart, mem, lastOk, rstart>>

TNote == (IsEvent("note") \/ IsEvent("quiesce")) /\ UNCHANGED <<log, sessions, w, tol, cstart, mem, lastOk, rstart>>

TraceNext == TReset \/ TRoomsAdd \/ TRoomsDel \/ TRoomsDelAll \/ TAppend \/ TPersist \/ TCleanStart \/ TCleanEnd \/ TRestoreStart \/ TRestore \/ TE2E \/ TNote
TraceSpec == TraceInit /\ [][TraceNext]_tvars
HWM == IF l > TLCGet(1) THEN TLCSet(1, l) ELSE TRUE
TraceAccepted == IF TLCGet(1) = Len(TraceLog) + 1 THEN TRUE
                 ELSE Print(<<"TRACE_REJECTED_AT", TLCGet(1)>>, FALSE)
=============================================================================
