CONSTANTS
  Kind = "packet"
  Producers = {1,2,3,4,5,6,7,8,9,10,11,12,13,14,15,16,17,18,19,20,21,22,23,24}
  Consumers = {1,2,3,4,5,6,7,8,9,10,11,12,13,14,15,16,17,18,19,20,21,22,23,24}
  Closers = {}
  MaxPolls = 1000000
  Dev = {}
  TimeoutOn = TRUE
  CloserMode = "none"
SPECIFICATION TraceSpec
INVARIANTS FifoExactlyOnce EmptyOnlyIfEmpty
CONSTRAINT HWM
POSTCONDITION TraceAccepted
CHECK_DEADLOCK FALSE
