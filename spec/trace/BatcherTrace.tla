---------------------------- MODULE BatcherTrace ----------------------------
(***************************************************************************)
(* Vector replay for C13.                                                  *)
(*  `batch` records: one Send call of the real Engine.IO client socket     *)
(*     (through the exported wrapper) with a recording transport; the      *)
(*     batches it produced must satisfy Batcher!Contract.                  *)
(*  `limit` records: one message of a given size sent to / by a real       *)
(*     Engine.IO server over a given transport; acceptance must follow     *)
(*     the limit table below.                                              *)
(***************************************************************************)
EXTENDS Batcher, Json, Integers

TraceLog == ndJsonDeserialize("trace.ndjson")
VARIABLE l
ASSUME TLCSet(1, 0)
Rec == TraceLog[l]
IsEvent(e) == /\ l <= Len(TraceLog) /\ TraceLog[l].ev = e /\ l' = l + 1

BatchOK(r) ==
    IF r.polling /\ r.max > 0 /\ Len(r.enc) > 1
      THEN Contract(r.enc, r.max, r.out)
      ELSE r.out = (IF r.enc = <<>> THEN <<>> ELSE <<r.enc>>)     \* nothing to split: handed over as it is

\* Limit table.  size = bytes of message data; the message as transported adds `overhead`
\* bytes (the packet type character; for JSON-P form bodies also "d=").
\*   inbound to the server (dir = "c2s"):
\*     size + 1 <= limit, or limit disabled (0)   => delivered, connection stays open
\*     size > limit                               => not delivered, connection closed, and the server
\*                                                   did not swallow the body (consumed <= limit + slack)
\*   outbound to the client (dir = "s2c"): everything within the announced limit is accepted
LimitOK(r) ==
    LET within == (r.limit = 0 \/ r.size + r.overhead <= r.limit)
        beyond == (r.limit > 0 /\ r.size > r.limit) IN
    /\ within => (r.delivered /\ ~r.closed)
    /\ (beyond /\ r.dir = "c2s") => (~r.delivered /\ r.closed /\ r.consumed <= r.limit + r.slack)

TBatch == IsEvent("batch") /\ (IF BatchOK(Rec) THEN TRUE ELSE PrintT(<<"STEP_MISMATCH", l>>))
TLimit == IsEvent("limit") /\ (IF LimitOK(Rec) THEN TRUE ELSE PrintT(<<"STEP_MISMATCH", l>>))
TReset == IsEvent("reset")

TraceInit == l = 1 /\ enc = <<>> /\ max = 0
TraceNext == (TBatch \/ TLimit \/ TReset) /\ UNCHANGED <<enc, max>>
TraceSpec == TraceInit /\ [][TraceNext]_<<l, enc, max>>

HWM == IF l > TLCGet(1) THEN TLCSet(1, l) ELSE TRUE
TraceAccepted == IF TLCGet(1) = Len(TraceLog) + 1 THEN TRUE
                 ELSE Print(<<"TRACE_REJECTED_AT", TLCGet(1)>>, FALSE)
=============================================================================
