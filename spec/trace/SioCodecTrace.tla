--------------------------- MODULE SioCodecTrace ---------------------------
(***************************************************************************)
(* Vector replay for C09 and C10.                                          *)
(*  `enc`  one abstract packet materialized as Go values, encoded by the   *)
(*         real Parser.Encode (twice), fed to a fresh Parser.Add and       *)
(*         decoded with matching types: header bytes, placeholder          *)
(*         numbering, attachment order, decoded tree, idempotence and      *)
(*         input preservation are judged here.                             *)
(*  `hdr`  one byte string given to the real header parser: no panic, and  *)
(*         for well-formed input the fields of SioCodec!ParseHeader.       *)
(*  `dec`  one frame sequence given to a real Parser and its decode        *)
(*         closure under a watchdog: packet-or-error, never a panic or a   *)
(*         hang, frames expected never negative, machine as specified.     *)
(*  `live` malformed frames sent to a live server / client while a healthy *)
(*         connection is open: the offender is closed or an error handler  *)
(*         runs, the process and the healthy connection keep working.      *)
(***************************************************************************)
EXTENDS SioCodec, Json, Integers

TraceLog == ndJsonDeserialize("trace.ndjson")
VARIABLE l
ASSUME TLCSet(1, 0)
Rec == TraceLog[l]
IsEvent(e) == /\ l <= Len(TraceLog) /\ TraceLog[l].ev = e /\ l' = l + 1

WireType(type, natt) == IF natt > 0 /\ type = 2 THEN 5 ELSE IF natt > 0 /\ type = 3 THEN 6 ELSE type

EncOK(r) ==
    /\ ~r.panicked /\ r.err = ""
    \* the first frame starts with exactly the v5 header
    /\ r.header = HeaderBytes(WireType(r.type, Len(r.atts)), Len(r.atts), r.nsp, r.id)
    \* one text frame, then the attachments as binary frames
    /\ r.nframes = 1 + Len(r.atts) /\ r.attsBinary
    \* placeholders 0..n-1, each once, attachments in that order, original tree restored
    /\ PlaceholdersOK(r.encoded, r.orig, r.atts)
    \* decoding the produced frames gives the packet back
    /\ r.decHeaderOK
    /\ (r.decodeChecked => r.decoded = r.orig)
    /\ (r.decodeCheckedG => r.decodedG = r.orig)      \* decoded into `any` arguments (generic containers)
    \* encoding the same values again gives the same packet (same header and frame count, placeholders
    \* again a valid numbering - maps may be walked in another order), and the values were not changed
    /\ r.secondSame /\ PlaceholdersOK(r.encoded2, r.orig, r.atts2) /\ r.inputSame

RECURSIVE StripZeros(_)
StripZeros(ds) == IF Len(ds) > 1 /\ ds[1] = 48 THEN StripZeros(Tail(ds)) ELSE ds
HdrOK(r) ==
    LET ref == ParseHeader(r.bytes) IN
    /\ ~r.panicked
    \* ids are compared as numbers (leading zeros do not matter)
    /\ (r.ok /\ ref.ok) => (r.type = ref.type /\ r.att = ref.att /\ r.nsp = ref.nsp /\ StripZeros(r.id) = StripZeros(ref.id))

\* frame sequence through the receiver: outcomes per frame
RECURSIVE Run(_, _, _)
Run(frames, i, rm) ==
    IF i > Len(frames) THEN TRUE
    ELSE LET f == frames[i]
             ref == ParseHeader(f.bytes)
             exp == Step(rm, TRUE, ref.ok, ref.ok /\ IsBinaryType(ref.type), IF ref.ok THEN ref.att ELSE 0)
         IN \* the reference decides the machine only for headers it finds well-formed and the code accepts too
            IF rm = 0 /\ (~ref.ok \/ f.out = "error") THEN f.rem = 0 /\ f.out \in {"error", "finish", "none"} /\ Run(frames, i + 1, IF f.out = "none" THEN f.rem ELSE 0)
            ELSE f.out = exp.out /\ f.rem = exp.rem /\ Run(frames, i + 1, exp.rem)
DecOK(r) ==
    /\ ~r.panicked /\ ~r.hung
    /\ \A i \in 1..Len(r.frames) : r.frames[i].rem >= 0
    /\ Run(r.frames, 1, 0)
    \* the decode closure of every finished packet returned values or an error
    /\ r.decodeTotal

LiveOK(r) == /\ r.processAlive /\ r.healthyWorks /\ r.laterWorks
             /\ (r.offenderClosed \/ r.errorReported \/ r.accepted)
             /\ (r.offenderClosed \/ r.offenderUsable)      \* a socket that is kept is not wedged (emits with acknowledgements still work)

Chk(ok) == IF ok THEN TRUE ELSE PrintT(<<"STEP_MISMATCH", l>>)
TEnc == IsEvent("enc") /\ Chk(EncOK(Rec))
THdr == IsEvent("hdr") /\ Chk(HdrOK(Rec))
TDec == IsEvent("dec") /\ Chk(DecOK(Rec))
TLive == IsEvent("live") /\ Chk(LiveOK(Rec))
TReset == IsEvent("reset")

TraceInit == l = 1 /\ rem = 0 /\ out = "none"
TraceNext == (TEnc \/ THdr \/ TDec \/ TLive \/ TReset) /\ UNCHANGED vars
TraceSpec == TraceInit /\ [][TraceNext]_<<l, vars>>
HWM == IF l > TLCGet(1) THEN TLCSet(1, l) ELSE TRUE
TraceAccepted == IF TLCGet(1) = Len(TraceLog) + 1 THEN TRUE
                 ELSE Print(<<"TRACE_REJECTED_AT", TLCGet(1)>>, FALSE)
=============================================================================
