--------------------------- MODULE HandlersTrace ---------------------------
(***************************************************************************)
(* Binds Handlers.tla to store.go in two ways.                             *)
(*  "step" records (vector replay): one operation applied to a real store  *)
(*     in a known state {pre}; the observed {post, res} must equal the     *)
(*     reference semantics of Handlers.tla applied to {pre}.               *)
(*  "hs.*" records (trace validation): the hooks under the store's mutex   *)
(*     during concurrent runs; the specification state is carried along    *)
(*     per store object and event name.                                    *)
(***************************************************************************)
EXTENDS HandlersOps, Json, Integers, TLC

TraceLog == ndJsonDeserialize("trace.ndjson")

VARIABLES l, st
tvars == <<l, st>>

ASSUME TLCSet(1, 0)
Rec == TraceLog[l]
IsEvent(e) == /\ l <= Len(TraceLog) /\ TraceLog[l].ev = e /\ l' = l + 1

Empty == [subs |-> <<>>, on |-> <<>>, once |-> <<>>]

TraceInit == l = 1 /\ st = <<>>

\* ---------------------------------------------------------------- vectors
ToSet(s) == {s[i] : i \in 1..Len(s)}

\* expected [subs, on, once, res] after applying Rec.op to Rec.pre
Expected(r) ==
    LET p == r.pre  e == r.e  a == r.args IN
    CASE r.op = "on"     -> [subs |-> p.subs, on |-> [p.on EXCEPT ![e] = Append(@, a[1])], once |-> p.once, res |-> <<>>]
      [] r.op = "once"   -> [subs |-> p.subs, on |-> p.on, once |-> [p.once EXCEPT ![e] = Append(@, a[1])], res |-> <<>>]
      [] r.op = "onsub"  -> [subs |-> [p.subs EXCEPT ![e] = Append(@, a[1])], on |-> p.on, once |-> p.once, res |-> <<>>]
      [] r.op = "offsub" -> [subs |-> [p.subs EXCEPT ![e] = RemoveOne(@, a[1])], on |-> p.on, once |-> p.once, res |-> <<>>]
      [] r.op = "offsubs" -> [subs |-> [p.subs EXCEPT ![e] = <<>>], on |-> p.on, once |-> p.once, res |-> <<>>]
      [] r.op = "off"    -> [subs |-> p.subs, on |-> [p.on EXCEPT ![e] = RemoveH(@, ToSet(a))],
                             once |-> [p.once EXCEPT ![e] = RemoveH(@, ToSet(a))], res |-> <<>>]
      [] r.op = "offallof" -> [subs |-> p.subs, on |-> [p.on EXCEPT ![e] = <<>>], once |-> [p.once EXCEPT ![e] = <<>>], res |-> <<>>]
      [] r.op = "offall" -> [subs |-> p.subs, on |-> [x \in DOMAIN p.on |-> <<>>], once |-> [x \in DOMAIN p.once |-> <<>>], res |-> <<>>]
      [] r.op = "fire"   -> [subs |-> p.subs, on |-> p.on, once |-> [p.once EXCEPT ![e] = <<>>],
                             res |-> FireList(p.subs[e], p.on[e], p.once[e])]

\* Vector records are independent of one another: a mismatch is printed (the
\* runner turns every printed index into a violation) and validation goes on,
\* so that one defect does not hide the others.
StepOK(r) == /\ r.panic = 0
             /\ Expected(r) = [subs |-> r.post.subs, on |-> r.post.on, once |-> r.post.once, res |-> r.res]
TStep == /\ IsEvent("step")
         /\ (IF StepOK(Rec) THEN TRUE ELSE PrintT(<<"STEP_MISMATCH", l>>))
         /\ UNCHANGED st

\* ------------------------------------------------------------------ traces
Key(r) == <<r.o, r.e>>
Get(k) == IF k \in DOMAIN st THEN st[k] ELSE Empty
Put(k, v) == st' = [x \in DOMAIN st \cup {k} |-> IF x = k THEN v ELSE st[x]]

TReset == IsEvent("reset") /\ st' = <<>>

TOn    == IsEvent("hs.on")    /\ Put(Key(Rec), [Get(Key(Rec)) EXCEPT !.on = Append(@, Rec.h)])
TOnce  == IsEvent("hs.once")  /\ Put(Key(Rec), [Get(Key(Rec)) EXCEPT !.once = Append(@, Rec.h)])
TOnSub == IsEvent("hs.onsub") /\ Put(Key(Rec), [Get(Key(Rec)) EXCEPT !.subs = Append(@, Rec.h)])
TOffSub == IsEvent("hs.offsub") /\ Put(Key(Rec), [Get(Key(Rec)) EXCEPT !.subs = RemoveOne(@, Rec.h)])
TOffSubs == IsEvent("hs.offsubs") /\ Put(Key(Rec), [Get(Key(Rec)) EXCEPT !.subs = <<>>])
TOff   == IsEvent("hs.off")   /\ Put(Key(Rec), [Get(Key(Rec)) EXCEPT !.on = RemoveH(@, ToSet(Rec.hs)),
                                                                       !.once = RemoveH(@, ToSet(Rec.hs))])
TOffAllOf == IsEvent("hs.offall") /\ Put(Key(Rec), [Get(Key(Rec)) EXCEPT !.on = <<>>, !.once = <<>>])
TOffEverything ==
          /\ IsEvent("hs.offeverything")
          /\ st' = [x \in DOMAIN st |-> IF x[1] = Rec.o THEN [st[x] EXCEPT !.on = <<>>, !.once = <<>>] ELSE st[x]]
\* getAll: the result is subs, then On handlers, then Once handlers; Once list cleared atomically
TFire  == /\ IsEvent("hs.fire")
          /\ LET s == Get(Key(Rec)) IN
               /\ Rec.nsub = Len(s.subs)
               /\ SubSeq(Rec.res, Rec.nsub + 1, Len(Rec.res)) = s.on \o s.once
               /\ Len(Rec.res) = Rec.nsub + Len(s.on) + Len(s.once)
               /\ Put(Key(Rec), [s EXCEPT !.once = <<>>])

\* harness record: the functions that actually ran for one occurrence are the
\* ones the last fire of that store returned (checked by the driver; here only consumed)
TNote == (IsEvent("note") \/ IsEvent("quiesce")) /\ UNCHANGED st

TraceNext == TStep \/ TReset \/ TOn \/ TOnce \/ TOnSub \/ TOffSub \/ TOffSubs \/ TOff \/ TOffAllOf
             \/ TOffEverything \/ TFire \/ TNote

TraceSpec == TraceInit /\ [][TraceNext]_tvars

HWM == IF l > TLCGet(1) THEN TLCSet(1, l) ELSE TRUE
TraceAccepted == IF TLCGet(1) = Len(TraceLog) + 1 THEN TRUE
                 ELSE Print(<<"TRACE_REJECTED_AT", TLCGet(1)>>, FALSE)
=============================================================================
