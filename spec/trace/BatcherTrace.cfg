CONSTANTS
  Sizes = {1}
  MaxLen = 1
  MaxPayloads = {1}
SPECIFICATION TraceSpec
CONSTRAINT HWM
POSTCONDITION TraceAccepted
CHECK_DEADLOCK FALSE
