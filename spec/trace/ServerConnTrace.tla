-------------------------- MODULE ServerConnTrace --------------------------
(***************************************************************************)
(* Trace specification for C05 / C06 / C12: hook records of a real server  *)
(* (routing, middlewares, namespace / connection stores, socket close      *)
(* steps, rooms) and the harness's own records (handler entries, what the  *)
(* clients saw, the residue snapshot at quiescence) must follow the life   *)
(* cycle of ServerConn.tla.  Sockets are keyed by their id; the scenario's *)
(* reset record carries the middleware chain length per namespace, the     *)
(* expected CONNECT_ERROR message per namespace and the disconnect reasons *)
(* allowed for the scenario's cause.                                       *)
(***************************************************************************)
EXTENDS Naturals, Sequences, FiniteSets, Json, TLC

TraceLog == ndJsonDeserialize("trace.ndjson")
VARIABLES l, S, cfg, inflight, mwev
tvars == <<l, S, cfg, inflight, mwev>>
ASSUME TLCSet(1, 0)
Rec == TraceLog[l]
IsEvent(e) == /\ l <= Len(TraceLog) /\ TraceLog[l].ev = e /\ l' = l + 1
SeqToSet(q) == {q[i] : i \in 1..Len(q)}

New(nsp) == [nsp |-> nsp, mw |-> <<>>, rejected |-> FALSE, inNsp |-> FALSE, connected |-> FALSE, ever |-> FALSE,
             inConn |-> FALSE, rooms |-> {}, onclose |-> 0, discs |-> <<>>, conn |-> 0, disting |-> 0]
Get(sid) == S[sid]
Put(sid, v) == S' = [x \in DOMAIN S \cup {sid} |-> IF x = sid THEN v ELSE S[x]]
Known(sid) == sid \in DOMAIN S
U == UNCHANGED <<cfg, inflight, mwev>>

TraceInit == l = 1 /\ S = <<>> /\ cfg = [chains |-> <<>>, allowed |-> <<>>, errmsg |-> <<>>] /\ inflight = {} /\ mwev = <<>>
TReset == /\ IsEvent("reset") /\ S' = <<>> /\ inflight' = {} /\ mwev' = <<>>
          /\ cfg' = [chains |-> (IF "chains" \in DOMAIN Rec THEN Rec.chains ELSE <<>>),
                     allowed |-> (IF "allowed" \in DOMAIN Rec THEN Rec.allowed ELSE <<>>),
                     errmsg |-> (IF "errmsg" \in DOMAIN Rec THEN Rec.errmsg ELSE <<>>)]

ChainLen(nsp) == IF nsp \in DOMAIN cfg.chains THEN cfg.chains[nsp] ELSE 0

\* ---- admission ----------------------------------------------------------
\* C12: middlewares run in registration order, none after a rejection, none for an attached socket
TMwEnter == /\ IsEvent("mw.enter")
            /\ LET s == IF Known(Rec.sid) THEN Get(Rec.sid) ELSE New(Rec.nsp) IN
                 /\ ~s.rejected /\ ~s.inNsp
                 /\ Rec.i = Len(s.mw) + 1
                 /\ Put(Rec.sid, [s EXCEPT !.mw = Append(@, Rec.i)])
            /\ U
TMwReject == /\ IsEvent("mw.reject") /\ Known(Rec.sid)
             /\ Rec.i = Len(Get(Rec.sid).mw)
             /\ Put(Rec.sid, [Get(Rec.sid) EXCEPT !.rejected = TRUE]) /\ U

\* C12: listed in the namespace only after every middleware accepted
TNspSet == /\ IsEvent("nspstore.set")
           /\ LET s == IF Known(Rec.sid) THEN Get(Rec.sid) ELSE New("?") IN
                /\ ~s.rejected
                /\ (s.nsp # "?" => Len(s.mw) = ChainLen(s.nsp))
                /\ (s.nsp = "?" => \A n \in DOMAIN cfg.chains : cfg.chains[n] = 0) \* no middleware ran: only legal without chains
                /\ Put(Rec.sid, [s EXCEPT !.inNsp = TRUE])
           /\ U
TNspRemove == /\ IsEvent("nspstore.remove")
              /\ (IF Known(Rec.sid) THEN Put(Rec.sid, [Get(Rec.sid) EXCEPT !.inNsp = FALSE]) ELSE UNCHANGED S) /\ U

TRoomsAdd == /\ IsEvent("rooms.add")
             /\ LET s == IF Known(Rec.sid) THEN Get(Rec.sid) ELSE New("?") IN
                  /\ ~s.rejected
                  /\ Put(Rec.sid, [s EXCEPT !.rooms = @ \cup SeqToSet(Rec.rooms)])
             /\ U
TRoomsDel == /\ IsEvent("rooms.del")
             /\ (IF Known(Rec.sid) THEN Put(Rec.sid, [Get(Rec.sid) EXCEPT !.rooms = @ \ {Rec.room}]) ELSE UNCHANGED S) /\ U
TRoomsDelAll == /\ IsEvent("rooms.delall")
                /\ (IF Known(Rec.sid) THEN Put(Rec.sid, [Get(Rec.sid) EXCEPT !.rooms = {}]) ELSE UNCHANGED S) /\ U

\* connected only once listed (hence accepted)
TConnected == /\ IsEvent("ssocket.connected") /\ Known(Rec.sid)
              /\ LET s == Get(Rec.sid) IN
                   /\ s.inNsp /\ ~s.rejected /\ ~s.connected
                   /\ Put(Rec.sid, [s EXCEPT !.connected = TRUE, !.ever = TRUE, !.nsp = Rec.nsp])
              /\ U
TConnSet == /\ IsEvent("connstore.set") /\ Known(Rec.sid)
            /\ Get(Rec.sid).ever
            /\ Put(Rec.sid, [Get(Rec.sid) EXCEPT !.inConn = TRUE]) /\ U
TConnRemove == /\ IsEvent("connstore.remove")
               /\ (IF Known(Rec.sid) THEN Put(Rec.sid, [Get(Rec.sid) EXCEPT !.inConn = FALSE]) ELSE UNCHANGED S) /\ U

\* ---- closing --------------------------------------------------------------
\* C06: the socket's close body runs at most once
TSockOnClose == /\ IsEvent("ssocket.onclose") /\ Known(Rec.sid)
                /\ Get(Rec.sid).onclose = 0 /\ Get(Rec.sid).connected
                /\ Put(Rec.sid, [Get(Rec.sid) EXCEPT !.onclose = 1]) /\ U
TSockDisconnected == /\ IsEvent("ssocket.disconnected") /\ Known(Rec.sid)
                     /\ Get(Rec.sid).onclose = 1
                     /\ Put(Rec.sid, [Get(Rec.sid) EXCEPT !.connected = FALSE, !.inConn = FALSE]) /\ U

\* ---- application-side records (harness) --------------------------------------
\* C12: connection handlers only for a connected (accepted) socket, once
THConnection == /\ IsEvent("h.connection") /\ Known(Rec.sid)
                /\ Get(Rec.sid).ever /\ ~Get(Rec.sid).rejected /\ Get(Rec.sid).conn = 0
                /\ Put(Rec.sid, [Get(Rec.sid) EXCEPT !.conn = 1]) /\ U
\* C06: disconnecting / disconnect handlers: at most once, after the close body started, allowed reason
THDisconnecting == /\ IsEvent("h.disconnecting") /\ Known(Rec.sid)
                   /\ Get(Rec.sid).disting = 0 /\ Get(Rec.sid).onclose = 1
                   /\ Put(Rec.sid, [Get(Rec.sid) EXCEPT !.disting = 1]) /\ U
THDisconnect == /\ IsEvent("h.disconnect") /\ Known(Rec.sid)
                /\ Get(Rec.sid).discs = <<>> /\ Get(Rec.sid).onclose = 1
                /\ (cfg.allowed # <<>> => Rec.reason \in SeqToSet(cfg.allowed))
                /\ Put(Rec.sid, [Get(Rec.sid) EXCEPT !.discs = Append(@, Rec.reason)]) /\ U

\* C05: what a client sends to a namespace ...
TClientEmit == /\ IsEvent("client.emit")
               /\ inflight' = inflight \cup {<<Rec.nsp, Rec.tag>>} /\ UNCHANGED <<S, cfg, mwev>>
\* ... is handled by a socket of that namespace and by nobody else, once
THEvent == /\ IsEvent("h.event") /\ Known(Rec.sid)
           /\ Get(Rec.sid).nsp = Rec.nsp
           /\ <<Rec.nsp, Rec.tag>> \in inflight
           /\ inflight' = inflight \ {<<Rec.nsp, Rec.tag>>} /\ UNCHANGED <<S, cfg, mwev>>

\* C12: event middlewares see the event's name and arguments, in order, before the handler;
\* a rejected event never reaches the handler
TEvMw == /\ IsEvent("h.evmw")
         /\ Rec.nameOK /\ Rec.argsOK
         /\ LET k == <<Rec.sid, Rec.tag>>
                seen == k \in DOMAIN mwev
                cur == IF seen THEN mwev[k] ELSE [n |-> 0, rej |-> FALSE] IN
              \* a pass over the chain starts at 1 - the first, or another one (the chain may run once per
              \* handler of the event) after the previous pass ended: rejected, or through the whole chain -
              \* and continues in order only while nothing rejected
              /\ IF Rec.i = 1 THEN (~seen \/ cur.rej \/ cur.n = Rec.chain)
                              ELSE (seen /\ ~cur.rej /\ Rec.i = cur.n + 1)
              /\ mwev' = [x \in DOMAIN mwev \cup {k} |-> IF x = k THEN [n |-> Rec.i, rej |-> Rec.reject] ELSE mwev[x]]
         /\ UNCHANGED <<S, cfg, inflight>>
TEvHandler == /\ IsEvent("h.evhandler")
              /\ LET k == <<Rec.sid, Rec.tag>> IN
                   /\ (Rec.chain > 0 => (k \in DOMAIN mwev /\ mwev[k].n = Rec.chain /\ ~mwev[k].rej))
              /\ Rec.argsOK
              /\ UNCHANGED <<S, cfg, inflight, mwev>>

\* what the client was told: CONNECT with the socket's id, or CONNECT_ERROR with the first rejection's message
TClientConnect == /\ IsEvent("client.connect") /\ Known(Rec.sid) /\ Get(Rec.sid).ever /\ UNCHANGED <<S, cfg, inflight, mwev>>
TClientError == /\ IsEvent("client.connect_error")
                /\ Rec.nsp \in DOMAIN cfg.errmsg /\ Rec.msg = cfg.errmsg[Rec.nsp]
                /\ UNCHANGED <<S, cfg, inflight, mwev>>

\* quiescence after everything was closed: every socket that had connected was reported exactly once,
\* and nothing of it is left (C06); rejected sockets left nothing (C12)
TQuiesce ==
    /\ IsEvent("quiesce")
    /\ \A sid \in DOMAIN S :
         LET s == S[sid] IN
           /\ (s.ever /\ Rec.allclosed) => (Len(s.discs) = 1 /\ ~s.inNsp /\ ~s.inConn /\ s.rooms = {} /\ ~s.connected)
           /\ s.rejected => (~s.inNsp /\ ~s.inConn /\ s.rooms = {} /\ ~s.ever /\ s.conn = 0)
    /\ Rec.nspSockets = 0 /\ Rec.adapterSockets = 0 /\ Rec.eioKnown = 0 /\ Rec.lateEvents = 0
    /\ Rec.adapterIndex = 0      \* no key and no membership left in either index of any adapter
    /\ UNCHANGED <<S, cfg, inflight, mwev>>
\* the same for scenarios that keep some sockets alive
TResidue ==
    /\ IsEvent("residue")
    /\ \A sid \in SeqToSet(Rec.gone) : Known(sid) =>
         LET s == S[sid] IN (s.ever => Len(s.discs) = 1) /\ ~s.inNsp /\ ~s.inConn /\ s.rooms = {} /\ ~s.connected
    /\ \A sid \in SeqToSet(Rec.alive) : Known(sid) => (S[sid].connected /\ S[sid].discs = <<>> /\ S[sid].inNsp)
    /\ UNCHANGED <<S, cfg, inflight, mwev>>

TNote == /\ \/ IsEvent("note") \/ IsEvent("conn.finish") \/ IsEvent("conn.route") \/ IsEvent("conn.invalid")
            \/ IsEvent("conn.rejected") \/ IsEvent("conn.onclose") \/ IsEvent("connstore.takeall")
            \/ IsEvent("ssocket.onclose.early") \/ IsEvent("eiostore.set") \/ IsEvent("eiostore.delete")
         /\ UNCHANGED <<S, cfg, inflight, mwev>>

TraceNext == TReset \/ TMwEnter \/ TMwReject \/ TNspSet \/ TNspRemove \/ TRoomsAdd \/ TRoomsDel \/ TRoomsDelAll
             \/ TConnected \/ TConnSet \/ TConnRemove \/ TSockOnClose \/ TSockDisconnected
             \/ THConnection \/ THDisconnecting \/ THDisconnect \/ TClientEmit \/ THEvent \/ TEvMw \/ TEvHandler
             \/ TClientConnect \/ TClientError \/ TQuiesce \/ TResidue \/ TNote
TraceSpec == TraceInit /\ [][TraceNext]_tvars
HWM == IF l > TLCGet(1) THEN TLCSet(1, l) ELSE TRUE
TraceAccepted == IF TLCGet(1) = Len(TraceLog) + 1 THEN TRUE
                 ELSE Print(<<"TRACE_REJECTED_AT", TLCGet(1)>>, FALSE)
=============================================================================
