--------------------------- MODULE DeliveryTrace ---------------------------
(***************************************************************************)
(* Trace specification for C01 / C02: one scenario = a real server and     *)
(* 1..3 real Go clients with goroutines emitting tagged events in both     *)
(* directions.  A packet is <<c, g, n>> (connection label - 1..9 client to *)
(* server, 11..19 server to client -, emitting goroutine, its counter); a  *)
(* frame is <<c, g, n, i>> (i = 0 header frame, 1.. attachments); frames   *)
(* the harness did not tag (CONNECT, acks, pings) appear as <<0,0,0,0>>    *)
(* and are skipped.                                                        *)
(*   emit.start   harness, before Emit                                     *)
(*   pq.add       packetQueue.add under its mutex: the frames appended     *)
(*   pq.send      sender goroutine: the batch handed to Engine.IO          *)
(*   eio.*.recv   frames received by the peer's Engine.IO socket           *)
(*   h.entry      harness, first statement of the event handler, with the  *)
(*                result of comparing the arguments with what was emitted  *)
(*   h.decoy      a handler registered under a look-alike name ran         *)
(***************************************************************************)
EXTENDS Naturals, Sequences, FiniteSets, Json, TLC

TraceLog == ndJsonDeserialize("trace.ndjson")
VARIABLES l, natt, queued, queue, wire, rcvd, done, entered
tvars == <<l, natt, queued, queue, wire, rcvd, done, entered>>
ASSUME TLCSet(1, 0)
Rec == TraceLog[l]
IsEvent(e) == /\ l <= Len(TraceLog) /\ TraceLog[l].ev = e /\ l' = l + 1

Tagged(pk) == SelectSeq(pk, LAMBDA f : f[1] # 0)
Pkt(f) == <<f[1], f[2], f[3]>>
Get(fn, c) == IF c \in DOMAIN fn THEN fn[c] ELSE <<>>
Put(fn, c, v) == [x \in DOMAIN fn \cup {c} |-> IF x = c THEN v ELSE fn[x]]
IsPrefix(a, b) == Len(a) <= Len(b) /\ SubSeq(b, 1, Len(a)) = a

TraceInit == l = 1 /\ natt = <<>> /\ queued = {} /\ queue = <<>> /\ wire = <<>> /\ rcvd = <<>> /\ done = {} /\ entered = <<>>
TReset == /\ IsEvent("reset") /\ natt' = <<>> /\ queued' = {} /\ queue' = <<>> /\ wire' = <<>> /\ rcvd' = <<>> /\ done' = {} /\ entered' = <<>>

TEmit == /\ IsEvent("emit.start")
         /\ Rec.p \notin DOMAIN natt
         /\ natt' = [x \in DOMAIN natt \cup {Rec.p} |-> IF x = Rec.p THEN Rec.natt ELSE natt[x]]
         /\ UNCHANGED <<queued, queue, wire, rcvd, done, entered>>

FramesOf(p) == [i \in 1..(natt[p] + 1) |-> <<p[1], p[2], p[3], i - 1>>]

\* C02: every frame of a packet is appended in one critical section, header first
TAdd == /\ IsEvent("pq.add")
        /\ LET fs == Tagged(Rec.pk) IN
             IF fs = <<>> THEN UNCHANGED <<queued, queue>>
             ELSE LET p == Pkt(fs[1]) IN
                  /\ p \in DOMAIN natt /\ p \notin queued
                  /\ fs = FramesOf(p)
                  /\ queued' = queued \cup {p}
                  /\ queue' = Put(queue, p[1], Get(queue, p[1]) \o fs)
        /\ UNCHANGED <<natt, wire, rcvd, done, entered>>

\* the sender hands over what is queued, oldest first
TSend == /\ IsEvent("pq.send")
         /\ LET fs == Tagged(Rec.pk) IN
              IF fs = <<>> THEN UNCHANGED <<queue, wire>>
              ELSE LET c == fs[1][1] IN
                   /\ IsPrefix(fs, Get(queue, c))
                   /\ queue' = Put(queue, c, SubSeq(Get(queue, c), Len(fs) + 1, Len(Get(queue, c))))
                   /\ wire' = Put(wire, c, Get(wire, c) \o fs)
         /\ UNCHANGED <<natt, queued, rcvd, done, entered>>

\* C01/C02: the peer receives exactly the frames that were sent, in that order (settled transport)
Completed(fs) == {Pkt(fs[i]) : i \in {j \in 1..Len(fs) : fs[j][4] = natt[Pkt(fs[j])]}}
TRecv == /\ (IsEvent("eio.s.recv") \/ IsEvent("eio.c.recv"))
         /\ LET fs == Tagged(Rec.pk) IN
              IF fs = <<>> THEN UNCHANGED <<rcvd, done>>
              ELSE LET c == fs[1][1]  k == Len(Get(rcvd, c)) IN
                   /\ k + Len(fs) <= Len(Get(wire, c))
                   /\ fs = SubSeq(Get(wire, c), k + 1, k + Len(fs))
                   /\ rcvd' = Put(rcvd, c, Get(rcvd, c) \o fs)
                   /\ done' = done \cup Completed(fs)
         /\ UNCHANGED <<natt, queued, queue, wire, entered>>

EnteredSet == {entered[i] : i \in 1..Len(entered)}
\* C01: the handler registered for that event name is entered once per packet, with equal arguments
EntryOK == Rec.p \in done /\ Rec.p \notin EnteredSet /\ Rec.ok
\* C02(b): and in emit order per emitter ...
InOrder == \A q \in done \ EnteredSet : (q[1] = Rec.p[1] /\ q[2] = Rec.p[2]) => Rec.p[3] <= q[3]
TEntry == /\ IsEvent("h.entry") /\ EntryOK /\ InOrder
          /\ entered' = Append(entered, Rec.p)
          /\ UNCHANGED <<natt, queued, queue, wire, rcvd, done>>
\* ... the recorded finding K3: one goroutine per packet lets a later packet's handler start first.
\* Accepted and reported (the runner turns the marker into KNOWN-FINDING K3).
TEntryReordered ==
          /\ IsEvent("h.entry") /\ EntryOK /\ ~InOrder
          /\ PrintT(<<"DEVIATION", "K3", l>>)
          /\ entered' = Append(entered, Rec.p)
          /\ UNCHANGED <<natt, queued, queue, wire, rcvd, done>>

\* everything emitted was entered exactly once; nothing is stuck in a queue
TQuiesce == /\ IsEvent("quiesce")
            /\ EnteredSet = DOMAIN natt
            /\ \A c \in DOMAIN queue : queue[c] = <<>>
            /\ UNCHANGED <<natt, queued, queue, wire, rcvd, done, entered>>

TNote == (IsEvent("note") \/ IsEvent("conn.finish") \/ IsEvent("mgr.finish")) /\ UNCHANGED <<natt, queued, queue, wire, rcvd, done, entered>>

TraceNext == TReset \/ TEmit \/ TAdd \/ TSend \/ TRecv \/ TEntry \/ TEntryReordered \/ TQuiesce \/ TNote
TraceSpec == TraceInit /\ [][TraceNext]_tvars

\* the frames of one packet are adjacent on the wire and in order (C02)
FramesContiguous == \A c \in DOMAIN wire : \A i \in 1..Len(wire[c]) :
    LET f == wire[c][i] IN f[4] > 0 => (i > 1 /\ wire[c][i - 1] = <<f[1], f[2], f[3], f[4] - 1>>)

HWM == IF l > TLCGet(1) THEN TLCSet(1, l) ELSE TRUE
TraceAccepted == IF TLCGet(1) = Len(TraceLog) + 1 THEN TRUE
                 ELSE Print(<<"TRACE_REJECTED_AT", TLCGet(1)>>, FALSE)
=============================================================================
