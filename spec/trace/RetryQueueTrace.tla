--------------------------- MODULE RetryQueueTrace ---------------------------
(***************************************************************************)
(* Trace specification for the client's retry queue (RetryQueue.tla seen   *)
(* through the hooks rq.add / rq.send / rq.drop / rq.stale, all under      *)
(* pq.mu) plus the harness: emit.start / emit.end (the call returned),     *)
(* h.entry (server handler), told (the user's acknowledgement), quiesce.   *)
(***************************************************************************)
EXTENDS Naturals, Sequences, FiniteSets, Json, TLC

TraceLog == ndJsonDeserialize("trace.ndjson")
VARIABLES l, retries, queue, tries, pending, emitted, returned, delivered, told
tvars == <<l, retries, queue, tries, pending, emitted, returned, delivered, told>>
ASSUME TLCSet(1, 0)
Rec == TraceLog[l]
IsEvent(e) == /\ l <= Len(TraceLog) /\ TraceLog[l].ev = e /\ l' = l + 1
Range(s) == {s[i] : i \in 1..Len(s)}
Get(f, k, d) == IF k \in DOMAIN f THEN f[k] ELSE d
Put(f, k, v) == [x \in DOMAIN f \cup {k} |-> IF x = k THEN v ELSE f[x]]

TraceInit == l = 1 /\ retries = 0 /\ queue = <<>> /\ tries = <<>> /\ pending = <<>> /\ emitted = 0 /\ returned = 0 /\ delivered = <<>> /\ told = <<>>
TReset == /\ IsEvent("reset") /\ retries' = Rec.retries
          /\ queue' = <<>> /\ tries' = <<>> /\ pending' = <<>> /\ emitted' = 0 /\ returned' = 0 /\ delivered' = <<>> /\ told' = <<>>

\* the harness numbers its emits 0, 1, ... like the queue numbers its packets
TEmit == /\ IsEvent("emit.start") /\ Rec.n = emitted /\ emitted' = emitted + 1
         /\ UNCHANGED <<retries, queue, tries, pending, returned, delivered, told>>
TReturn == /\ IsEvent("emit.end") /\ Rec.n = returned /\ returned' = returned + 1
           /\ UNCHANGED <<retries, queue, tries, pending, emitted, delivered, told>>
TAdd == /\ IsEvent("rq.add") /\ Rec.id < emitted /\ Rec.id \notin Range(queue) /\ Rec.id \notin DOMAIN told
        /\ (IF queue = <<>> THEN TRUE ELSE queue[Len(queue)] < Rec.id)
        /\ queue' = Append(queue, Rec.id) /\ Rec.len = Len(queue')
        /\ UNCHANGED <<retries, tries, pending, emitted, returned, delivered, told>>
\* only the head is sent; a try more each time; not while pending unless forced (reconnection)
TSend == /\ IsEvent("rq.send") /\ queue # <<>> /\ queue[1] = Rec.id
         /\ Rec.try = Get(tries, Rec.id, 0) + 1
         /\ (Rec.wasPending => Rec.force)       \* (a time-out that does not give up clears the flag without a record: the flag is logged)
         /\ tries' = Put(tries, Rec.id, Rec.try) /\ pending' = Put(pending, Rec.id, TRUE)
         /\ UNCHANGED <<retries, queue, emitted, returned, delivered, told>>
\* a callback drops its own packet, which is the head; by time-out only after Retries + 1 tries
TDrop == /\ IsEvent("rq.drop") /\ queue # <<>> /\ queue[1] = Rec.id /\ Rec.len = Len(queue)
         /\ (Rec.err => Get(tries, Rec.id, 0) > retries)
         /\ queue' = Tail(queue) /\ pending' = Put(pending, Rec.id, FALSE)
         /\ UNCHANGED <<retries, tries, emitted, returned, delivered, told>>
\* a stale try (its packet has left the queue, or is no longer the head) leaves the queue alone
TStale == /\ IsEvent("rq.stale") /\ (IF queue = <<>> THEN TRUE ELSE queue[1] # Rec.id)
          /\ UNCHANGED <<retries, queue, tries, pending, emitted, returned, delivered, told>>
\* the server handles what was sent, first deliveries in order
TEntry == /\ IsEvent("h.entry") /\ Rec.n \in DOMAIN tries
          /\ \A i \in Range(delivered) : i <= Rec.n
          /\ delivered' = Append(delivered, Rec.n)
          /\ UNCHANGED <<retries, queue, tries, pending, emitted, returned, told>>
\* the user's acknowledgement: once, after the packet left the queue; "ok" only for what was handled
TTold == /\ IsEvent("told") /\ Rec.n \notin DOMAIN told /\ Rec.n \notin Range(queue) /\ Rec.n \in DOMAIN tries
         /\ (Rec.ok => Rec.n \in Range(delivered))
         /\ told' = Put(told, Rec.n, Rec.ok)
         /\ UNCHANGED <<retries, queue, tries, pending, emitted, returned, delivered>>
TNote == (IsEvent("note") \/ IsEvent("link")) /\ UNCHANGED <<retries, queue, tries, pending, emitted, returned, delivered, told>>
\* at rest on a connected socket: every Emit returned (nothing blocks on pq.mu), every packet was settled
TQuiesce == /\ IsEvent("quiesce")
            /\ returned = emitted
            /\ queue = <<>> /\ DOMAIN told = 0..(emitted - 1)
            /\ UNCHANGED <<retries, queue, tries, pending, emitted, returned, delivered, told>>

TraceNext == TReset \/ TEmit \/ TReturn \/ TAdd \/ TSend \/ TDrop \/ TStale \/ TEntry \/ TTold \/ TNote \/ TQuiesce
TraceSpec == TraceInit /\ [][TraceNext]_tvars
HWM == IF l > TLCGet(1) THEN TLCSet(1, l) ELSE TRUE
TraceAccepted == IF TLCGet(1) = Len(TraceLog) + 1 THEN TRUE
                 ELSE Print(<<"TRACE_REJECTED_AT", TLCGet(1)>>, FALSE)
=============================================================================
