SPECIFICATION TraceSpec
CONSTRAINT HWM
POSTCONDITION TraceAccepted
CHECK_DEADLOCK FALSE
