----------------------------- MODULE RoomsTrace -----------------------------
(***************************************************************************)
(* C04 bindings.                                                           *)
(*  `bc` records (vector replay): a real adapter prepared with a given     *)
(*     membership matrix, one broadcast / Sockets / FetchSockets call with *)
(*     (T, E); the sockets reached must be exactly Recipients, once each.  *)
(*  rooms.* / nspstore.* / apply.* records (trace validation): hooks under *)
(*     the adapter's and the socket store's mutex on a real server; the    *)
(*     membership relation is carried along, every apply() call (keyed by  *)
(*     its goroutine) is judged with interval semantics when it ends, and  *)
(*     a socket-originated broadcast must not reach its sender.            *)
(***************************************************************************)
EXTENDS RoomsOps, Json, Integers, FiniteSets, TLC

TraceLog == ndJsonDeserialize("trace.ndjson")
VARIABLES l, mem, live, calls, sender, intent
tvars == <<l, mem, live, calls, sender, intent>>
ASSUME TLCSet(1, 0)
Rec == TraceLog[l]
IsEvent(e) == /\ l <= Len(TraceLog) /\ TraceLog[l].ev = e /\ l' = l + 1

\* ---- vectors ----------------------------------------------------------
MemRec(m) == [s \in DOMAIN m |-> SeqToSet(m[s])]
BcOK(r) ==
    LET want == Recipients(MemRec(r.mem), SeqToSet(r.live), SeqToSet(r.T), SeqToSet(r.E)) IN
    /\ SeqToSet(r.got) = want
    /\ Len(r.got) = Cardinality(want)          \* once each
Chk(ok) == IF ok THEN TRUE ELSE PrintT(<<"STEP_MISMATCH", l>>)
TBc == IsEvent("bc") /\ Chk(BcOK(Rec)) /\ UNCHANGED <<mem, live, calls, sender, intent>>

\* ---- traces -------------------------------------------------------------
TraceInit == l = 1 /\ mem = <<>> /\ live = {} /\ calls = <<>> /\ sender = <<>> /\ intent = <<>>
TReset == IsEvent("reset") /\ mem' = <<>> /\ live' = {} /\ calls' = <<>> /\ sender' = <<>> /\ intent' = <<>>

Qual(m, lv, s, T, E) == s \in DOMAIN m /\ s \in lv /\ (T = {} \/ m[s] \cap T # {}) /\ m[s] \cap E = {}
TMatch(m, lv, s, T) == s \in DOMAIN m /\ s \in lv /\ (T = {} \/ m[s] \cap T # {})

\* every running apply() narrows `must` and widens `may` after a membership change
Track(m2, lv2) ==
    calls' = [g \in DOMAIN calls |->
                [calls[g] EXCEPT !.must = {s \in @ : Qual(m2, lv2, s, calls[g].T, calls[g].E)},
                                 !.may = @ \cup {s \in DOMAIN m2 : TMatch(m2, lv2, s, calls[g].T)}]]

TAdd == /\ IsEvent("rooms.add")
        /\ mem' = MemAdd(mem, Rec.sid, SeqToSet(Rec.rooms))
        /\ Track(mem', live) /\ UNCHANGED <<live, sender, intent>>
TDel == /\ IsEvent("rooms.del")
        /\ mem' = MemDel(mem, Rec.sid, Rec.room)
        /\ Track(mem', live) /\ UNCHANGED <<live, sender, intent>>
TDelAll == /\ IsEvent("rooms.delall")
           /\ mem' = MemDelAll(mem, Rec.sid)
           /\ Track(mem', live) /\ UNCHANGED <<live, sender, intent>>
TStoreSet == /\ IsEvent("nspstore.set") /\ live' = live \cup {Rec.sid}
             /\ Track(mem, live') /\ UNCHANGED <<mem, sender, intent>>
TStoreRemove == /\ IsEvent("nspstore.remove") /\ live' = live \ {Rec.sid}
                /\ Track(mem, live') /\ UNCHANGED <<mem, sender, intent>>

PutCall(g, v) == calls' = [x \in DOMAIN calls \cup {g} |-> IF x = g THEN v ELSE calls[x]]

TApplyStart ==
    /\ IsEvent("apply.start")
    /\ LET T == SeqToSet(Rec.T)  E == SeqToSet(Rec.E) IN
         PutCall(Rec.g, [T |-> T, E |-> E, got |-> <<>>,
                         must |-> Recipients(mem, live, T, E),
                         may |-> {s \in DOMAIN mem : TMatch(mem, live, s, T)}])
    \* a kept operator must hand the adapter the selection it was built for
    /\ (Rec.g \in DOMAIN intent => (SeqToSet(Rec.T) = intent[Rec.g].T /\ SeqToSet(Rec.E) = intent[Rec.g].E))
    /\ intent' = [x \in DOMAIN intent \ {Rec.g} |-> intent[x]]
    /\ UNCHANGED <<mem, live, sender>>

\* a callback: never the sender of a socket-originated broadcast, never twice
TApplyCb ==
    /\ IsEvent("apply.cb")
    /\ Rec.g \in DOMAIN calls
    /\ Rec.sid \notin SeqToSet(calls[Rec.g].got)
    /\ (Rec.g \in DOMAIN sender => sender[Rec.g] # Rec.sid)
    /\ calls' = [calls EXCEPT ![Rec.g].got = Append(@, Rec.sid)]
    /\ UNCHANGED <<mem, live, sender, intent>>

\* the call ends: members throughout were reached, nobody outside `may` was
TApplyEnd ==
    /\ IsEvent("apply.end")
    /\ Rec.g \in DOMAIN calls
    /\ LET c == calls[Rec.g] IN c.must \subseteq SeqToSet(c.got) /\ SeqToSet(c.got) \subseteq c.may
    /\ calls' = [x \in DOMAIN calls \ {Rec.g} |-> calls[x]]
    /\ sender' = [x \in DOMAIN sender \ {Rec.g} |-> sender[x]]
    /\ UNCHANGED <<mem, live, intent>>

\* harness: the next broadcast of goroutine g is issued through socket `sid`
TFrom == /\ IsEvent("emit.from")
         /\ sender' = [x \in DOMAIN sender \cup {Rec.g} |-> IF x = Rec.g THEN Rec.sid ELSE sender[x]]
         /\ UNCHANGED <<mem, live, calls, intent>>

\* harness: the next broadcast of goroutine g goes through a kept operator built for (T, E)
TIntent == /\ IsEvent("bc.intent")
           /\ intent' = [x \in DOMAIN intent \cup {Rec.g} |-> IF x = Rec.g THEN [T |-> SeqToSet(Rec.T), E |-> SeqToSet(Rec.E)] ELSE intent[x]]
           /\ UNCHANGED <<mem, live, calls, sender>>

\* harness: membership as the public API reports it must be the specification's (Rooms() of a socket)
TRoomsOf == /\ IsEvent("rooms.of")
            /\ SeqToSet(Rec.rooms) = MemOf(mem, Rec.sid)
            /\ UNCHANGED <<mem, live, calls, sender, intent>>

\* harness: everything returned; a socket that is gone belongs to no room
TQuiesce == /\ IsEvent("quiesce")
            /\ \A s \in DOMAIN mem : s \notin live => mem[s] = {}
            /\ calls = <<>>
            /\ UNCHANGED <<mem, live, calls, sender, intent>>
TNote == (IsEvent("nsp.send") \/ IsEvent("note")) /\ UNCHANGED <<mem, live, calls, sender, intent>>

TraceNext == TBc \/ TReset \/ TAdd \/ TDel \/ TDelAll \/ TStoreSet \/ TStoreRemove \/ TApplyStart \/ TApplyCb
             \/ TApplyEnd \/ TFrom \/ TIntent \/ TRoomsOf \/ TNote \/ TQuiesce
TraceSpec == TraceInit /\ [][TraceNext]_tvars
HWM == IF l > TLCGet(1) THEN TLCSet(1, l) ELSE TRUE
TraceAccepted == IF TLCGet(1) = Len(TraceLog) + 1 THEN TRUE
                 ELSE Print(<<"TRACE_REJECTED_AT", TLCGet(1)>>, FALSE)
=============================================================================
