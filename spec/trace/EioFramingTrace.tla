-------------------------- MODULE EioFramingTrace --------------------------
(***************************************************************************)
(* Vector replay for C11: what the real encoders/decoders produced for a   *)
(* given input must be what EioFraming.tla prescribes, byte for byte.      *)
(***************************************************************************)
EXTENDS EioFraming, Json, Integers

TraceLog == ndJsonDeserialize("trace.ndjson")
VARIABLE l
ASSUME TLCSet(1, 0)
Rec == TraceLog[l]
IsEvent(e) == /\ l <= Len(TraceLog) /\ TraceLog[l].ev = e /\ l' = l + 1

P(r) == [type |-> r.type, bin |-> r.bin, data |-> r.data]

\* one packet, one mode: bytes, advertised length, and decoding of those bytes
PktOK(r) ==
    /\ r.enc = EncPacket(P(r), r.sb)
    /\ r.enclen = EncodedLen(P(r), r.sb)
    /\ r.decok /\ r.dec.type = r.type /\ r.dec.bin = r.bin /\ r.dec.data = r.data

PayloadOK(r) ==
    LET ps == [i \in 1..Len(r.pkts) |-> P(r.pkts[i])] IN
    /\ r.enc = EncPayload(ps)
    /\ r.enclen = EncodedPayloadLen(ps)
    \* (the protocol has no empty payload: decoding is required only for >= 1 packet)
    /\ Len(ps) > 0 => r.decok /\ Len(r.dec) = Len(ps)
    /\ Len(ps) > 0 => \A i \in 1..Len(ps) : r.dec[i].type = ps[i].type /\ r.dec[i].bin = ps[i].bin /\ r.dec[i].data = ps[i].data

\* a WebTransport frame of a packet with n data bytes: header bytes, and what the reader got back
FrameOK(r) ==
    /\ r.header = FrameHeader(r.n, r.bin)
    /\ r.total = Len(FrameHeader(r.n, r.bin)) + r.n
    /\ r.decok /\ r.declen = r.n /\ r.decbin = r.bin /\ r.same

\* arbitrary bytes: decoding returns a packet or an error - it never panics;
\* and a header never makes the reader reserve more than limit (+ slack) bytes
AnyOK(r) == ~r.panicked /\ (r.limit > 0 => r.alloc <= r.limit + r.slack)

Chk(ok) == IF ok THEN TRUE ELSE PrintT(<<"STEP_MISMATCH", l>>)
TPkt == IsEvent("pkt") /\ Chk(PktOK(Rec))
TPayload == IsEvent("payload") /\ Chk(PayloadOK(Rec))
TFrame == IsEvent("frame") /\ Chk(FrameOK(Rec))
TAny == IsEvent("any") /\ Chk(AnyOK(Rec))
TReset == IsEvent("reset")

TraceInit == l = 1 /\ dummy = 0
TraceNext == (TPkt \/ TPayload \/ TFrame \/ TAny \/ TReset) /\ UNCHANGED dummy
TraceSpec == TraceInit /\ [][TraceNext]_<<l, dummy>>
HWM == IF l > TLCGet(1) THEN TLCSet(1, l) ELSE TRUE
TraceAccepted == IF TLCGet(1) = Len(TraceLog) + 1 THEN TRUE
                 ELSE Print(<<"TRACE_REJECTED_AT", TLCGet(1)>>, FALSE)
=============================================================================
