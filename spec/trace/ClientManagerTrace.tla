------------------------- MODULE ClientManagerTrace -------------------------
(***************************************************************************)
(* Trace specification for C15: one scenario = one real Go client (Manager *)
(* + socket "/") talking to a real server through a fault proxy.           *)
(* Hooks (under the lock that protects the state they report):             *)
(*   mgr.state      every write (or decisive read) of Manager.state, by    *)
(*                  site; mgr.skip; backoff.next / backoff.reset           *)
(*   mgr.sleep/wake the delay chosen for the attempt, and the time before  *)
(*                  and after sleeping it                                  *)
(*   csock.state    every write of the client socket's state               *)
(*   csock.send / sendbuf.append / csock.drop / sendbuf.flush              *)
(*                  what _sendBuffers and emitBuffered did with the frames *)
(* Harness: link (proxy), user.connect, emit.start, h.entry (server side   *)
(* handler), ack, the Manager's reconnect_* events, quiesce.               *)
(* The actions are those of ClientManager.tla seen through the hooks; the  *)
(* deviations the design specification names are rejected here.            *)
(***************************************************************************)
EXTENDS Naturals, Sequences, FiniteSets, Json, TLC

TraceLog == ndJsonDeserialize("trace.ndjson")
VARIABLES l, cfg, link, mstate, attempts, fails, failed, ann, tries, annSet, sstate, buf, emitted, how, entered, acked, slept, lastRecv
tvars == <<l, cfg, link, mstate, attempts, fails, failed, ann, tries, annSet, sstate, buf, emitted, how, entered, acked, slept, lastRecv>>
ASSUME TLCSet(1, 0)
Rec == TraceLog[l]
IsEvent(e) == /\ l <= Len(TraceLog) /\ TraceLog[l].ev = e /\ l' = l + 1

MS == <<"connecting", "connected", "reconnecting", "disconnected">>    \* clientConnectionState 0..3
SS == <<"connected", "pending", "disconnected">>                        \* clientSocketConnectionState 0..2
Range(s) == {s[i] : i \in 1..Len(s)}
Tags(pk) == SelectSeq(pk, LAMBDA x : x # 0)                            \* frames of tagged events (0: control packets)
NoCfg == [limit |-> 0, min |-> 0, max |-> 0, jit |-> 0, slack |-> 0]

TraceInit == /\ l = 1 /\ cfg = NoCfg /\ link = "up" /\ mstate = "disconnected" /\ attempts = 0 /\ fails = 0 /\ failed = 0 /\ ann = 0 /\ tries = 0 /\ annSet = {}
             /\ sstate = "disconnected" /\ buf = <<>> /\ emitted = <<>> /\ how = <<>> /\ entered = <<>> /\ acked = {}
             /\ slept = [d |-> 0, t |-> 0] /\ lastRecv = 0
TReset == /\ IsEvent("reset")
          /\ cfg' = [limit |-> Rec.limit, min |-> Rec.min, max |-> Rec.max, jit |-> Rec.jit, slack |-> Rec.slack]
          /\ link' = "up" /\ mstate' = "disconnected" /\ attempts' = 0 /\ fails' = 0 /\ failed' = 0 /\ ann' = 0 /\ tries' = 0 /\ annSet' = {}
          /\ sstate' = "disconnected" /\ buf' = <<>> /\ emitted' = <<>> /\ how' = <<>> /\ entered' = <<>> /\ acked' = {}
          /\ slept' = [d |-> 0, t |-> 0] /\ lastRecv' = 0

UM == UNCHANGED <<cfg, link, sstate, buf, emitted, how, entered, acked, lastRecv>>     \* manager-side step
US == UNCHANGED <<cfg, link, mstate, attempts, fails, failed, ann, tries, annSet, slept>>           \* socket-side step

(***************************************************************************)
(* the Manager's state machine, site by site                               *)
(***************************************************************************)
To == MS[Rec.to + 1]
\* reconnect_attempt was announced for every attempt made (handlers run on their own goroutines: no order)
AllAnnounced == (1..tries) \subseteq annSet /\ annSet \subseteq 1..(tries + 1)
TMgrState ==
    /\ IsEvent("mgr.state")
    /\ CASE Rec.site = "connect.begin"   -> mstate # "connected" /\ To = "connecting" /\ UNCHANGED <<attempts, fails, failed, ann, annSet>>
                                            /\ tries' = (IF Rec.rec THEN tries + 1 ELSE tries)
         [] Rec.site = "connect.already" -> mstate = "connected" /\ To = "connected" /\ UNCHANGED <<attempts, fails, failed, ann, tries, annSet>>
         [] Rec.site = "connect.fail"    -> mstate = "connecting" /\ To = "disconnected"
                                            /\ fails' = (IF Rec.rec THEN fails + 1 ELSE fails) /\ UNCHANGED <<attempts, failed, ann, tries, annSet>>
         \* the state may only go to "connected" from "connecting": a close reported while Dial was
         \* returning must not be overwritten (it would stick)
         [] Rec.site = "connect.ok"      -> mstate = "connecting" /\ To = "connected" /\ UNCHANGED <<attempts, fails, failed, ann, tries, annSet>>
         [] Rec.site = "reconnect.begin" -> mstate = "disconnected" /\ To = "reconnecting"
                                            /\ (IF Rec.rec THEN UNCHANGED <<fails, failed, ann, tries, annSet>>
                                                           ELSE /\ AllAnnounced                                    \* a new round
                                                                /\ fails' = 0 /\ failed' = 0 /\ ann' = 0 /\ tries' = 0 /\ annSet' = {})
                                            /\ UNCHANGED attempts
         [] Rec.site = "reconnect.busy"  -> mstate # "disconnected" /\ To = mstate /\ UNCHANGED <<attempts, fails, failed, ann, tries, annSet>>
         \* gives up after exactly `limit` failed attempts
         [] Rec.site = "reconnect.max"   -> mstate = "reconnecting" /\ To = "disconnected"
                                            /\ cfg.limit > 0 /\ Rec.attempts = cfg.limit /\ fails = cfg.limit   \* (the counter itself was reset just before)
                                            /\ failed' = failed + 1 /\ UNCHANGED <<attempts, fails, ann, tries, annSet>>
         [] Rec.site = "reconnect.err"   -> mstate = "disconnected" /\ To = "disconnected" /\ UNCHANGED <<attempts, fails, failed, ann, tries, annSet>>
         [] Rec.site = "onclose"         -> To = "disconnected" /\ UNCHANGED <<attempts, fails, failed, ann, tries, annSet>>
         [] Rec.site = "close"           -> To = "disconnected" /\ UNCHANGED <<attempts, fails, failed, ann, tries, annSet>>
    /\ mstate' = To
    /\ UNCHANGED slept /\ UM

\* the attempt counter: one more, never beyond the limit
TBackoffNext == /\ IsEvent("backoff.next")
                /\ Rec.n = attempts + 1
                /\ (cfg.limit > 0 => Rec.n <= cfg.limit)
                /\ mstate = "reconnecting"
                /\ attempts' = Rec.n /\ UNCHANGED <<mstate, fails, failed, ann, tries, annSet, slept>> /\ UM
TBackoffReset == /\ IsEvent("backoff.reset") /\ attempts' = 0 /\ UNCHANGED <<mstate, fails, failed, ann, tries, annSet, slept>> /\ UM

\* the delay: within (0, max]; the first one of a round starts from the configured delay (+- jitter)
Lo == (cfg.min \div 100) * (100 - cfg.jit)
Hi == (cfg.min \div 100) * (100 + cfg.jit) + 100
Min2(a, b) == IF a < b THEN a ELSE b
TSleep == /\ IsEvent("mgr.sleep")
          /\ Rec.d > 0 /\ Rec.d <= cfg.max
          /\ (attempts = 1 => (Rec.d >= Min2(Lo, cfg.max) /\ Rec.d <= Min2(Hi, cfg.max)))
          /\ slept' = [d |-> Rec.d, t |-> Rec.t]
          /\ UNCHANGED <<mstate, attempts, fails, failed, ann, tries, annSet>> /\ UM
\* ... and is really slept (times in microseconds, the delay in nanoseconds)
TWake == /\ IsEvent("mgr.wake")
         /\ Rec.t - slept.t + 1 >= slept.d \div 1000
         /\ Rec.t - slept.t <= (slept.d \div 1000) + cfg.slack
         /\ UNCHANGED <<mstate, attempts, fails, failed, ann, tries, annSet, slept>> /\ UM

\* what the Manager announces
TAttempt == /\ IsEvent("m.attempt") /\ Rec.n \in 1..(tries + 1) /\ Rec.n \notin annSet
            /\ annSet' = annSet \cup {Rec.n}
            /\ UNCHANGED <<mstate, attempts, fails, failed, ann, tries, slept>> /\ UM
TFailed == /\ IsEvent("m.failed") /\ failed = 1 /\ ann = 0   \* announced once, after the limit was reached
           /\ ann' = 1 /\ UNCHANGED <<mstate, attempts, fails, failed, tries, annSet, slept>> /\ UM
TNote == /\ \/ IsEvent("m.recerror") \/ IsEvent("m.reconnect") \/ IsEvent("m.open") \/ IsEvent("m.close") \/ IsEvent("m.error")
            \/ IsEvent("mgr.skip") \/ IsEvent("sock.connect") \/ IsEvent("sock.disconnect") \/ IsEvent("note") \/ IsEvent("user.connect")
         /\ UNCHANGED <<mstate, attempts, fails, failed, ann, tries, annSet, slept>> /\ UM

TLink == /\ IsEvent("link") /\ link' = Rec.state
         /\ UNCHANGED <<cfg, mstate, attempts, fails, failed, ann, tries, annSet, sstate, buf, emitted, how, entered, acked, slept, lastRecv>>

(***************************************************************************)
(* the socket: state, offline buffer                                       *)
(***************************************************************************)
TSockState ==
    /\ IsEvent("csock.state")
    /\ CASE Rec.site = "open"      -> sstate # "pending" /\ SS[Rec.to + 1] = "pending"
         [] Rec.site = "connect"   -> sstate # "pending" /\ SS[Rec.to + 1] = "pending"
         [] Rec.site = "onconnect" -> SS[Rec.to + 1] = "connected"
         [] Rec.site = "onclose"   -> SS[Rec.to + 1] = "disconnected"
    /\ sstate' = SS[Rec.to + 1]
    /\ UNCHANGED <<buf, emitted, how, entered, acked, lastRecv>> /\ US

\* how[n]: "" (emit in progress), "sent", "parked" (then "sent" when flushed), "dropped"
Vol(n) == emitted[n].vol
TEmit == /\ IsEvent("emit.start") /\ Rec.n = Len(emitted) + 1
         /\ emitted' = Append(emitted, [vol |-> Rec.vol, natt |-> Rec.natt, ack |-> Rec.ack])
         /\ how' = Append(how, "")
         /\ UNCHANGED <<sstate, buf, entered, acked, lastRecv>> /\ US
FramesOf(n) == [i \in 1..(emitted[n].natt + 1) |-> n]
Undecided(n) == n \in 1..Len(emitted) /\ how[n] = ""
\* _sendBuffers: at once only on a connected socket whose buffer is empty (nothing may overtake parked events)
TSendNow == /\ IsEvent("csock.send")
            /\ LET fs == Tags(Rec.pk) IN
               IF fs = <<>> THEN UNCHANGED how                        \* CONNECT / DISCONNECT / acks
               ELSE LET n == fs[1] IN
                    /\ Undecided(n) /\ fs = FramesOf(n)
                    /\ sstate = "connected" /\ buf = <<>>
                    /\ how' = [how EXCEPT ![n] = "sent"]
            /\ UNCHANGED <<sstate, buf, emitted, entered, acked, lastRecv>> /\ US
\* parked: not connected (or behind parked events), not volatile; all frames of the packet together
TAppend == /\ IsEvent("sendbuf.append")
           /\ (sstate # "connected" \/ buf # <<>>)
           /\ LET fs == Tags(Rec.pk) IN
                 IF fs = <<>> THEN UNCHANGED <<buf, how>>                 \* an acknowledgement the client owes, parked too
                 ELSE /\ Undecided(fs[1]) /\ fs = FramesOf(fs[1])
                      /\ ~Vol(fs[1])
                      /\ buf' = buf \o fs /\ how' = [how EXCEPT ![fs[1]] = "parked"]
           /\ UNCHANGED <<sstate, emitted, entered, acked, lastRecv>> /\ US
\* dropped: volatile and not connected
TDrop == /\ IsEvent("csock.drop")
         /\ LET fs == Tags(Rec.pk) IN
               /\ fs # <<>> /\ Undecided(fs[1]) /\ Vol(fs[1]) /\ (sstate # "connected" \/ buf # <<>>)
               /\ how' = [how EXCEPT ![fs[1]] = "dropped"]
         /\ UNCHANGED <<sstate, buf, emitted, entered, acked, lastRecv>> /\ US
\* emitBuffered: everything parked, in order, in one piece, on a connected socket
TFlush == /\ IsEvent("sendbuf.flush")
          /\ sstate = "connected" /\ Tags(Rec.pk) = buf /\ buf # <<>>
          /\ how' = [n \in 1..Len(how) |-> IF n \in Range(buf) THEN "sent" ELSE how[n]] /\ buf' = <<>>
          /\ UNCHANGED <<sstate, emitted, entered, acked, lastRecv>> /\ US

\* the server's Engine.IO socket: frames arrive in emit order (one emitting goroutine), only sent ones
Max(a, b) == IF a > b THEN a ELSE b
RECURSIVE NonDecr(_, _)
NonDecr(fs, last) == IF fs = <<>> THEN TRUE ELSE (fs[1] >= last /\ NonDecr(Tail(fs), fs[1]))
TRecv == /\ IsEvent("eio.s.recv")
         /\ LET fs == Tags(Rec.pk) IN
               /\ \A i \in 1..Len(fs) : fs[i] \in 1..Len(how) /\ how[fs[i]] = "sent"
               /\ NonDecr(fs, lastRecv)
               /\ lastRecv' = IF fs = <<>> THEN lastRecv ELSE fs[Len(fs)]
         /\ UNCHANGED <<sstate, buf, emitted, how, entered, acked>> /\ US
\* the server's handler: only what was sent, once, intact (the order of handler entries is C02's business: K3)
EnteredSet == Range(entered)
TEntry == /\ IsEvent("h.entry")
          /\ Rec.n \in 1..Len(how) /\ how[Rec.n] = "sent" /\ Rec.n \notin EnteredSet /\ Rec.ok
          /\ entered' = Append(entered, Rec.n)
          /\ UNCHANGED <<sstate, buf, emitted, how, acked, lastRecv>> /\ US
TAck == /\ IsEvent("ack") /\ Rec.n \in EnteredSet /\ Rec.n \notin acked /\ emitted[Rec.n].ack
        /\ acked' = acked \cup {Rec.n}
        /\ UNCHANGED <<sstate, buf, emitted, how, entered, lastRecv>> /\ US


(***************************************************************************)
(* the back-off calculator on its own: (delay, max, jitter, attempt) -> d  *)
(* 63-bit durations travel as three 21-bit limbs <<hi, mid, lo>>           *)
(***************************************************************************)
Leq(a, b) == \/ a[1] < b[1]
             \/ (a[1] = b[1] /\ a[2] < b[2])
             \/ (a[1] = b[1] /\ a[2] = b[2] /\ a[3] <= b[3])
Zero == <<0, 0, 0>>
\* within (0, max]; attempt 0 starts from the configured delay: exactly without jitter, within the
\* band the harness computed from (delay, jitter) with it - never beyond max
VecOK(r) == /\ ~r.neg /\ r.d # Zero /\ Leq(r.d, r.max)
            /\ (r.attempt = 0 => (Leq(r.lo, r.d) /\ Leq(r.d, r.hi)))
TVec == /\ IsEvent("backoff.vec")
        /\ IF VecOK(Rec) THEN TRUE ELSE PrintT(<<"STEP_MISMATCH", l>>)
        /\ UNCHANGED <<mstate, attempts, fails, failed, ann, tries, annSet, slept>> /\ UM

(***************************************************************************)
(* quiescence: the harness healed the link and waited                      *)
(***************************************************************************)
GaveUp == failed > 0 /\ mstate = "disconnected"
TQuiesce ==
    /\ IsEvent("quiesce")
    /\ \A n \in 1..Len(how) : how[n] # ""                              \* every emit was sent, parked or dropped
    /\ AllAnnounced
    /\ CASE Rec.expect = "connected" ->
              /\ link = "up" /\ mstate = "connected" /\ sstate = "connected" /\ Rec.connected /\ buf = <<>> /\ ~GaveUp
              \* every non-volatile event was delivered (TEntry: at most once, intact) and acknowledged if asked;
              \* volatile ones emitted while not connected were dropped (TDrop) and never arrive (TEntry)
              /\ \A n \in 1..Len(how) : (~Vol(n) => (how[n] = "sent" /\ n \in EnteredSet))
              /\ \A n \in 1..Len(how) : (emitted[n].ack /\ ~Vol(n)) => n \in acked
         [] Rec.expect = "gaveup" ->
              /\ cfg.limit > 0 /\ GaveUp /\ failed = 1 /\ ann = 1 /\ ~Rec.connected
              /\ \A n \in 1..Len(how) : how[n] = "parked" => n \in Range(buf)     \* still parked, nothing lost
         \* recorded finding K5: a dial whose handshake is swallowed never times out
         [] Rec.expect = "hung" ->
              /\ mstate = "connecting" /\ link = "up" /\ ~Rec.connected
              /\ PrintT(<<"DEVIATION", "K5", l>>)
    /\ UNCHANGED <<sstate, buf, emitted, how, entered, acked, lastRecv>> /\ US

TraceNext == TReset \/ TMgrState \/ TBackoffNext \/ TBackoffReset \/ TSleep \/ TWake \/ TAttempt \/ TFailed \/ TNote \/ TLink
             \/ TSockState \/ TEmit \/ TSendNow \/ TAppend \/ TDrop \/ TFlush \/ TRecv \/ TEntry \/ TAck \/ TQuiesce \/ TVec
TraceSpec == TraceInit /\ [][TraceNext]_tvars

HWM == IF l > TLCGet(1) THEN TLCSet(1, l) ELSE TRUE
TraceAccepted == IF TLCGet(1) = Len(TraceLog) + 1 THEN TRUE
                 ELSE Print(<<"TRACE_REJECTED_AT", TLCGet(1)>>, FALSE)
=============================================================================
