--------------------------- MODULE EioServerTrace ---------------------------
(***************************************************************************)
(* Vector replay + race scenarios for C17.                                 *)
(*  `req`   one HTTP request of the matrix against a real server: status,  *)
(*          protocol error code and observed effect must equal Decide.     *)
(*  `race`  a handshake parked inside the Authenticator while Close runs   *)
(*          (and plain concurrent handshakes + Close): after both ended    *)
(*          the store must be empty and every session created must have    *)
(*          been closed.                                                   *)
(*  `sids`  a batch of generated session ids: pairwise distinct.           *)
(***************************************************************************)
EXTENDS EioServer, Json, Integers

TraceLog == ndJsonDeserialize("trace.ndjson")
VARIABLE l
ASSUME TLCSet(1, 0)
Rec == TraceLog[l]
IsEvent(e) == /\ l <= Len(TraceLog) /\ TraceLog[l].ev = e /\ l' = l + 1

StatusClass(st, want) ==
    CASE want = "err" -> st >= 400
      [] want = "503" -> st = 503
      [] want = "400" -> st = 400
      [] want = "200" -> st = 200

ReqOK(r) ==
    LET d == Decide(r.closed, r.method, r.eio, r.transport, r.sid) IN
    /\ StatusClass(r.status, d.status)
    /\ (r.method # "HEAD" /\ d.status # "err") => r.code = d.code       \* a HEAD answer has no body to carry the code
    /\ r.newsock = (IF d.effect = "new" THEN 1 ELSE 0)                 \* sessions announced to the application
    /\ r.storedelta = (IF d.effect = "new" THEN 1 ELSE 0)              \* sessions added to the store
    /\ (d.effect = "new") = r.opensid                                  \* an OPEN packet with a session id was returned
    /\ ~r.liveclosed                                                   \* the live session was not disturbed
    /\ (d.effect = "data") = r.delivered

\* a websocket handshake naming a session: refused unless that session is live and on long-polling; a
\* refused or unfinished one leaves the session as it was (its own connection still carries traffic both ways,
\* it was not closed, its transport is the same)
WsOK(r) ==
    LET d == DecideWs(r.sid) IN
    /\ (d.status = "101") = (r.status = 101)
    /\ (d.status = "refused") => r.status >= 400
    /\ (r.sid \in {"polling", "upgraded", "wsdirect"}) =>
          (IF d.takeover THEN r.transportAfter = "websocket" /\ ~r.sessionClosed
                         ELSE r.transportAfter = r.transportBefore /\ ~r.sessionClosed /\ r.stillWorks)
    /\ r.newsock = 0

RaceOK(r) == r.storeafter = 0 /\ r.created = r.closedcb

TReq  == IsEvent("req")  /\ (IF ReqOK(Rec) THEN TRUE ELSE PrintT(<<"STEP_MISMATCH", l>>))
TWs   == IsEvent("wsreq") /\ (IF WsOK(Rec) THEN TRUE ELSE PrintT(<<"STEP_MISMATCH", l>>))
TRace == IsEvent("race") /\ (IF RaceOK(Rec) THEN TRUE ELSE PrintT(<<"STEP_MISMATCH", l>>))
TSids == IsEvent("sids") /\ (IF Rec.n = Rec.distinct THEN TRUE ELSE PrintT(<<"STEP_MISMATCH", l>>))
TReset == IsEvent("reset")

TraceInit == l = 1 /\ Init
TraceNext == (TReq \/ TWs \/ TRace \/ TSids \/ TReset) /\ UNCHANGED vars
TraceSpec == TraceInit /\ [][TraceNext]_<<l, vars>>
HWM == IF l > TLCGet(1) THEN TLCSet(1, l) ELSE TRUE
TraceAccepted == IF TLCGet(1) = Len(TraceLog) + 1 THEN TRUE
                 ELSE Print(<<"TRACE_REJECTED_AT", TLCGet(1)>>, FALSE)
=============================================================================
