----------------------------- MODULE AcksTrace -----------------------------
(***************************************************************************)
(* Trace specification for C03.  One scenario = one emitting socket; the   *)
(* harness numbers its emits k = 1, 2, ... (Ids) and logs `emit.start{k}`  *)
(* on the emitting goroutine just before Emit, so that the hook record     *)
(* `ack.reg{id, h}` of that goroutine binds the library's ack id and       *)
(* handler object to k.  Hook records are taken under acksMu / h.mu /      *)
(* sendBufferMu; `cb` is logged by the user callback itself.  The peer and *)
(* the timers are environment: their unobservable steps (ack packet in     *)
(* flight, time.Sleep returning) are forced by the record that needs them. *)
(***************************************************************************)
EXTENDS Acks, Json, Integers

TraceLog == ndJsonDeserialize("trace.ndjson")

VARIABLES l, kOfH, kOfId, cur, hasTO
tvars == <<vars, l, kOfH, kOfId, cur, hasTO>>

ASSUME TLCSet(1, 0)
Rec == TraceLog[l]
IsEvent(e) == /\ l <= Len(TraceLog) /\ TraceLog[l].ev = e /\ l' = l + 1

Fresh ==
    /\ emitted = {} /\ acks = {} /\ sent = {}
    /\ called = [i \in Ids |-> FALSE] /\ timedOut = [i \in Ids |-> FALSE]
    /\ sendBuf = <<>> /\ connected = FALSE
    /\ rpc = [i \in Ids |-> "idle"] /\ tpc = [i \in Ids |-> "idle"]
    /\ cb = [i \in Ids |-> <<>>] /\ dups = 0 /\ sbLocked = FALSE
    /\ epc = [i \in Ids |-> "idle"]

TraceInit == Fresh /\ l = 1 /\ kOfH = <<>> /\ kOfId = <<>> /\ cur = <<>> /\ hasTO = {}

TReset == /\ IsEvent("reset")
          /\ emitted' = {} /\ acks' = {} /\ sent' = {}
          /\ called' = [i \in Ids |-> FALSE] /\ timedOut' = [i \in Ids |-> FALSE]
          /\ sendBuf' = <<>> /\ connected' = FALSE
          /\ rpc' = [i \in Ids |-> "idle"] /\ tpc' = [i \in Ids |-> "idle"]
          /\ cb' = [i \in Ids |-> <<>>] /\ dups' = 0 /\ sbLocked' = FALSE
          /\ epc' = [i \in Ids |-> "idle"]
          /\ kOfH' = <<>> /\ kOfId' = <<>> /\ cur' = <<>> /\ hasTO' = {}

Bind(f, k, v) == [x \in DOMAIN f \cup {k} |-> IF x = k THEN v ELSE f[x]]
U == UNCHANGED <<kOfH, kOfId, cur, hasTO>>

\* harness: goroutine g is about to Emit number k
TEmitStart == /\ IsEvent("emit.start")
              /\ cur' = Bind(cur, Rec.g, Rec.k)
              /\ UNCHANGED <<vars, kOfH, kOfId, hasTO>>

\* registerAckHandler on that goroutine: Register(k)
TReg == /\ IsEvent("ack.reg")
        /\ Rec.g \in DOMAIN cur
        /\ LET k == cur[Rec.g] IN
             /\ emitted' = emitted \cup {k} /\ k \notin emitted
             /\ acks' = acks \cup {k}
             /\ tpc' = [tpc EXCEPT ![k] = IF Rec.to THEN "sleep" ELSE "none"]
             /\ epc' = [epc EXCEPT ![k] = "reg"]
             /\ kOfH' = Bind(kOfH, Rec.h, k) /\ kOfId' = Bind(kOfId, <<Rec.s, Rec.id>>, k)
             /\ hasTO' = IF Rec.to THEN hasTO \cup {k} ELSE hasTO
        /\ UNCHANGED <<called, timedOut, sendBuf, connected, sent, rpc, cb, dups, sbLocked, cur>>

\* offline frames of an ack-carrying emit: Buffer(k, n); the logged buffer must be the specification's
AsIds(buf) == [i \in 1..Len(buf) |-> IF <<Rec.s, buf[i]>> \in DOMAIN kOfId THEN kOfId[<<Rec.s, buf[i]>>] ELSE 0 - 1]
SId == <<Rec.s, Rec.id>>
SpecBuf == [i \in 1..Len(sendBuf) |-> sendBuf[i][1]]

TAppend == /\ IsEvent("sendbuf.append")
           /\ IF SId \in DOMAIN kOfId
                THEN LET k == kOfId[SId] IN
                       /\ epc[k] = "reg"
                       /\ sendBuf' = sendBuf \o Frames(k, Rec.n)
                       /\ epc' = [epc EXCEPT ![k] = "out"]
                ELSE /\ sendBuf' = sendBuf \o [i \in 1..Rec.n |-> <<0 - 1, i>>]   \* frames without an ack
                     /\ UNCHANGED epc
           /\ AsIds(Rec.buf) = [i \in 1..Len(sendBuf') |-> sendBuf'[i][1]]
           /\ UNCHANGED <<emitted, acks, called, timedOut, connected, sent, rpc, tpc, cb, dups, sbLocked>> /\ U

\* emitBuffered: everything buffered goes out in order, the buffer is emptied
TFlush == /\ IsEvent("sendbuf.flush")
          /\ AsIds(Rec.buf) = SpecBuf
          /\ sent' = sent \cup {sendBuf[i][1] : i \in 1..Len(sendBuf)}
          /\ sendBuf' = <<>> /\ connected' = TRUE
          /\ UNCHANGED <<emitted, acks, called, timedOut, rpc, tpc, cb, dups, sbLocked, epc>> /\ U

\* onAck: found must agree with the specification's ack map; the entry is deleted
TLookup == /\ IsEvent("ack.lookup")
           /\ IF SId \in DOMAIN kOfId
                THEN LET k == kOfId[SId] IN
                       /\ Rec.found = (k \in acks)
                       /\ Rec.found => (Rec.h \in DOMAIN kOfH /\ kOfH[Rec.h] = k)
                       /\ acks' = acks \ {k}
                       /\ rpc' = [rpc EXCEPT ![k] = IF Rec.found THEN "found" ELSE "done"]
                ELSE Rec.found = FALSE /\ UNCHANGED <<acks, rpc>>
           /\ UNCHANGED <<emitted, called, timedOut, sendBuf, connected, sent, tpc, cb, dups, sbLocked, epc>> /\ U

TCallDecide == /\ IsEvent("ack.call.decide")
               /\ Rec.h \in DOMAIN kOfH
               /\ CallDecide(kOfH[Rec.h])
               /\ Rec.run = (rpc'[kOfH[Rec.h]] = "run")
               /\ U

\* timer: the sleep returned (forced), then the decision under h.mu
TTimerDecide == /\ IsEvent("ack.timer.decide")
                /\ Rec.h \in DOMAIN kOfH
                /\ LET k == kOfH[Rec.h] IN
                     /\ tpc[k] = "sleep"
                     /\ Rec.won = ~called[k]
                     /\ IF called[k] THEN tpc' = [tpc EXCEPT ![k] = "done"] /\ UNCHANGED timedOut
                                     ELSE tpc' = [tpc EXCEPT ![k] = "won"] /\ timedOut' = [timedOut EXCEPT ![k] = TRUE]
                /\ UNCHANGED <<emitted, acks, called, sendBuf, connected, sent, rpc, cb, dups, sbLocked, epc>> /\ U

TPurgeAcks == /\ IsEvent("ack.purge")
              /\ SId \in DOMAIN kOfId
              /\ PurgeAcks(kOfId[SId])
              /\ U

\* the purge keeps exactly the frames of other ids, in order
TPurgeBuf == /\ IsEvent("sendbuf.purge")
             /\ SId \in DOMAIN kOfId
             /\ PurgeBuf(kOfId[SId])
             /\ AsIds(Rec.rem) = [i \in 1..Len(sendBuf') |-> sendBuf'[i][1]]
             /\ U

\* the user callback ran: at most once, by the winner of h.mu, with the peer's value
TCb == /\ IsEvent("cb")
       /\ Rec.ok
       /\ LET k == Rec.k IN
            /\ cb[k] = <<>>
            /\ IF Rec.kind = "reply"
                 THEN rpc[k] = "run" /\ rpc' = [rpc EXCEPT ![k] = "done"] /\ UNCHANGED tpc
                 ELSE tpc[k] \in {"won2", "purged"} /\ tpc' = [tpc EXCEPT ![k] = "done"] /\ UNCHANGED rpc
            /\ cb' = [cb EXCEPT ![k] = Append(@, Rec.kind)]
       /\ UNCHANGED <<emitted, acks, called, timedOut, sendBuf, connected, sent, dups, sbLocked, epc>> /\ U

\* harness: everything settled; every emit with a time-out has had its callback
TQuiesce == /\ IsEvent("quiesce")
            /\ \A k \in hasTO : Len(cb[k]) = 1
            /\ UNCHANGED vars /\ U

TNote == IsEvent("note") /\ UNCHANGED vars /\ U

\* records of handlers/sockets that do not belong to this scenario's emits (a timer left over
\* from an earlier scenario): no effect on this scenario's state
TForeign == /\ \/ (IsEvent("ack.timer.decide") /\ Rec.h \notin DOMAIN kOfH)
               \/ (IsEvent("ack.call.decide") /\ Rec.h \notin DOMAIN kOfH)
               \/ (IsEvent("ack.purge") /\ SId \notin DOMAIN kOfId)
               \/ (IsEvent("sendbuf.purge") /\ SId \notin DOMAIN kOfId)
            /\ UNCHANGED vars /\ U

TraceNext == TReset \/ TEmitStart \/ TReg \/ TAppend \/ TFlush \/ TLookup \/ TCallDecide \/ TTimerDecide
             \/ TPurgeAcks \/ TPurgeBuf \/ TCb \/ TQuiesce \/ TNote \/ TForeign

TraceSpec == TraceInit /\ [][TraceNext]_tvars

HWM == IF l > TLCGet(1) THEN TLCSet(1, l) ELSE TRUE
TraceAccepted == IF TLCGet(1) = Len(TraceLog) + 1 THEN TRUE
                 ELSE Print(<<"TRACE_REJECTED_AT", TLCGet(1)>>, FALSE)
=============================================================================
