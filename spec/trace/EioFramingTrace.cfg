CONSTANTS
  Bytes = {0}
  MaxData = 0
  MaxFrameLen = 0
SPECIFICATION TraceSpec
CONSTRAINT HWM
POSTCONDITION TraceAccepted
CHECK_DEADLOCK FALSE
