-------------------------- MODULE EioSessionTrace --------------------------
(***************************************************************************)
(* Trace specification for C07 and C14: hook records of one real Engine.IO *)
(* session (server socket and client socket): sends under the read lock    *)
(* (with the transport used), receptions, transport swaps under the write  *)
(* lock (with the packets the server re-sent), heartbeats and closes with  *)
(* times in microseconds, plus the harness's proxy records.                *)
(*   exactly once : a message reception consumes a pending send of the     *)
(*                  same tag; nothing is pending at quiescence             *)
(*   swaps        : sends name the transport current at that side          *)
(*   failures     : a failed upgrade leaves both sides on polling, open    *)
(*   heartbeats   : a black-holed link is closed with `ping timeout`       *)
(*                  within PI + PT + slack on both sides; an undisturbed   *)
(*                  session is never closed by the heartbeat               *)
(***************************************************************************)
EXTENDS Naturals, Sequences, FiniteSets, Json, TLC

TraceLog == ndJsonDeserialize("trace.ndjson")
VARIABLES l, sTr, cTr, pendUp, pendDown, closedS, closedC, cfg, hole, beatS, beatC, owed
tvars == <<l, sTr, cTr, pendUp, pendDown, closedS, closedC, cfg, hole, beatS, beatC, owed>>
ASSUME TLCSet(1, 0)
Rec == TraceLog[l]
IsEvent(e) == /\ l <= Len(TraceLog) /\ TraceLog[l].ev = e /\ l' = l + 1
SeqToSet(q) == {q[i] : i \in 1..Len(q)}
\* the driver renders message packets as their payload tag ("u<n>" / "d<n>") and every other
\* packet as "ctl:<type>"
Ctl == {"ctl:0", "ctl:1", "ctl:2", "ctl:3", "ctl:5", "ctl:6"}
IsMsg(t) == t \notin Ctl
MsgTags(pk) == {pk[i] : i \in {j \in 1..Len(pk) : IsMsg(pk[j])}}

Cfg0 == [first |-> "polling", final |-> "polling", expectClose |-> FALSE, pi |-> 0, pt |-> 0, slack |-> 0, dead |-> FALSE, mode |-> 0]
TraceInit == l = 1 /\ sTr = "polling" /\ cTr = "polling" /\ pendUp = {} /\ pendDown = {}
             /\ closedS = "" /\ closedC = "" /\ cfg = Cfg0 /\ hole = 0 /\ beatS = 0 /\ beatC = 0 /\ owed = <<>>
TReset == /\ IsEvent("reset")
          /\ cfg' = [first |-> Rec.first, final |-> Rec.final, expectClose |-> Rec.expectClose,
                     pi |-> Rec.pi, pt |-> Rec.pt, slack |-> Rec.slack, dead |-> Rec.dead, mode |-> 0]
          /\ sTr' = Rec.first /\ cTr' = Rec.first /\ pendUp' = {} /\ pendDown' = {} /\ closedS' = "" /\ closedC' = "" /\ hole' = 0 /\ owed' = <<>>
          /\ beatS' = (IF "t0" \in DOMAIN Rec THEN Rec.t0 ELSE 0) /\ beatC' = (IF "t0" \in DOMAIN Rec THEN Rec.t0 ELSE 0)

K == UNCHANGED <<cfg, hole, beatS, beatC, owed>>
KK == UNCHANGED <<cfg, hole, beatS, beatC>>
\* sends: on the transport that is current at that side
TSSend == /\ IsEvent("eio.s.send") /\ Rec.tr = sTr /\ owed = <<>>
          /\ MsgTags(Rec.pk) \cap pendDown = {}                    \* every message is sent once
          /\ pendDown' = pendDown \cup MsgTags(Rec.pk)
          /\ UNCHANGED <<sTr, cTr, pendUp, closedS, closedC>> /\ K
TCSend == /\ IsEvent("eio.c.send") /\ Rec.tr = cTr
          /\ MsgTags(Rec.pk) \cap pendUp = {}
          /\ pendUp' = pendUp \cup MsgTags(Rec.pk)
          /\ UNCHANGED <<sTr, cTr, pendDown, closedS, closedC>> /\ K
\* receptions: exactly once
TSRecv == /\ IsEvent("eio.s.recv") /\ MsgTags(Rec.pk) \subseteq pendUp
          /\ pendUp' = pendUp \ MsgTags(Rec.pk)
          /\ UNCHANGED <<sTr, cTr, pendDown, closedS, closedC>> /\ K
TCRecv == /\ IsEvent("eio.c.recv") /\ MsgTags(Rec.pk) \subseteq pendDown
          /\ pendDown' = pendDown \ MsgTags(Rec.pk)
          /\ UNCHANGED <<sTr, cTr, pendUp, closedS, closedC>> /\ K
\* swaps; what the server re-sends was sent before and has not arrived
\* everything the old poll queue still held - heartbeats included, NOOPs excepted - is owed to the new transport
TSSwap == /\ IsEvent("eio.s.swap") /\ sTr = "polling" /\ Rec.to # "polling"
          /\ MsgTags(Rec.pk) \subseteq pendDown
          /\ owed' = SelectSeq(Rec.pk, LAMBDA t : t # "ctl:6")
          /\ sTr' = Rec.to /\ UNCHANGED <<cTr, pendUp, pendDown, closedS, closedC>> /\ KK
TSResend == /\ IsEvent("eio.s.resend") /\ owed # <<>> /\ Rec.pk = <<Head(owed)>>
            /\ owed' = Tail(owed)
            /\ UNCHANGED <<sTr, cTr, pendUp, pendDown, closedS, closedC>> /\ KK
TCSwap == /\ IsEvent("eio.c.swap") /\ cTr = "polling" /\ Rec.to # "polling"
          /\ cTr' = Rec.to /\ UNCHANGED <<sTr, pendUp, pendDown, closedS, closedC>> /\ K

\* closes: only when the scenario expects the session to end; heartbeat closes only on a dead link, in time
\* a side notices within PI + PT (+ slack) of the last heartbeat it received
InTime(t, beat) == t <= beat + cfg.pi + cfg.pt + cfg.slack
TSClose == /\ IsEvent("eio.s.close") /\ cfg.expectClose
           /\ (Rec.reason = "ping timeout" => cfg.dead /\ hole > 0 /\ InTime(Rec.t, beatS))
           /\ closedS' = Rec.reason /\ UNCHANGED <<sTr, cTr, pendUp, pendDown, closedC>> /\ K
TCClose == /\ IsEvent("eio.c.close") /\ cfg.expectClose
           /\ (Rec.reason = "ping timeout" => cfg.dead /\ hole > 0 /\ InTime(Rec.t, beatC))
           /\ closedC' = Rec.reason /\ UNCHANGED <<sTr, cTr, pendUp, pendDown, closedS>> /\ K
\* harness: the link was silently black-holed at time t (mode 1: both directions, 2: client -> server, 3: server -> client)
THole == /\ IsEvent("proxy.blackhole") /\ hole' = Rec.t
         /\ cfg' = [cfg EXCEPT !.mode = Rec.mode]
         /\ UNCHANGED <<sTr, cTr, pendUp, pendDown, closedS, closedC, beatS, beatC, owed>>
\* heartbeats received: PONG at the server, PING at the client.  Nothing crosses a black hole: a heartbeat
\* "received" later than what was in flight when the hole opened (50 ms) did not come from the peer
InFlight == 50000
Crossed(t, blocked) == hole = 0 \/ ~blocked \/ t <= hole + InFlight
TSPong == /\ IsEvent("eio.s.pong") /\ beatS' = Rec.t
          /\ Crossed(Rec.t, cfg.mode \in {1, 2})
          /\ UNCHANGED <<sTr, cTr, pendUp, pendDown, closedS, closedC, cfg, hole, beatC, owed>>
TCPing == /\ IsEvent("eio.c.ping") /\ beatC' = Rec.t
          /\ Crossed(Rec.t, cfg.mode \in {1, 3})
          /\ UNCHANGED <<sTr, cTr, pendUp, pendDown, closedS, closedC, cfg, hole, beatS, owed>>

TBeat == /\ \/ IsEvent("eio.s.ping") \/ IsEvent("eio.s.pingtimeout")
            \/ IsEvent("eio.c.pingtimeout") \/ IsEvent("note")
         /\ UNCHANGED <<sTr, cTr, pendUp, pendDown, closedS, closedC>> /\ K

\* quiescence
TQuiesce ==
    /\ IsEvent("quiesce")
    /\ owed = <<>>
    /\ ~cfg.expectClose => (pendUp = {} /\ pendDown = {} /\ sTr = cfg.final /\ cTr = cfg.final
                            /\ closedS = "" /\ closedC = "" /\ Rec.serverTransport = cfg.final /\ Rec.clientTransport = cfg.final)
    \* a dead peer was detected on both sides; with the link dead in both directions the reason is the
    \* heartbeat's on both sides, with a one-way hole the other side may see the transport go away instead
    /\ cfg.dead => /\ closedS # "" /\ closedC # ""
                    /\ (closedS = "ping timeout" \/ closedC = "ping timeout")
                    /\ Rec.bothWays => (closedS = "ping timeout" /\ closedC = "ping timeout")
    /\ UNCHANGED <<sTr, cTr, pendUp, pendDown, closedS, closedC>> /\ K

TraceNext == TReset \/ TSSend \/ TCSend \/ TSRecv \/ TCRecv \/ TSSwap \/ TSResend \/ TCSwap \/ TSClose \/ TCClose \/ THole \/ TSPong \/ TCPing \/ TBeat \/ TQuiesce
TraceSpec == TraceInit /\ [][TraceNext]_tvars
HWM == IF l > TLCGet(1) THEN TLCSet(1, l) ELSE TRUE
TraceAccepted == IF TLCGet(1) = Len(TraceLog) + 1 THEN TRUE
                 ELSE Print(<<"TRACE_REJECTED_AT", TLCGet(1)>>, FALSE)
=============================================================================
