-------------------------- MODULE WakeQueueTrace --------------------------
(***************************************************************************)
(* Trace specification: the records emitted by the hooks in               *)
(* poll_queue.go / packet_queue.go (and the harness's own `quiesce` and    *)
(* `reset` records) must be a behaviour of WakeQueue.  Processes are the   *)
(* goroutine numbers the sink assigns (Producers = Consumers = 1..K).      *)
(* Steps the hooks cannot see (entering the select, the signal of the      *)
(* packet queue, a time-out firing, the drain signal) are silent actions.  *)
(***************************************************************************)
EXTENDS WakeQueue, Json, Integers

TraceLog == ndJsonDeserialize("trace.ndjson")

VARIABLE l
tvars == <<vars, l>>

ASSUME TLCSet(1, 0)

Rec == TraceLog[l]
IsEvent(e) == /\ l <= Len(TraceLog) /\ TraceLog[l].ev = e /\ l' = l + 1

TraceInit == Init /\ l = 1

\* `reset`: a new scenario starts from the initial state
TReset == /\ IsEvent("reset")
          /\ q' = <<>> /\ tok' = 0
          /\ ppc' = [p \in Producers |-> "start"]
          /\ cpc' = [c \in Consumers |-> "start"]
          /\ cur' = [c \in Consumers |-> <<>>]
          /\ npoll' = [c \in Consumers |-> 0]
          /\ got' = [c \in Consumers |-> <<>>]
          /\ taken' = <<>> /\ added' = <<>> /\ cleared' = 0 /\ sent' = <<>>
          /\ closeTok' = 0 /\ resetTok' = 0 /\ closed' = FALSE
          /\ kpc' = [k \in Closers |-> "start"]
          /\ badEmpty' = FALSE

\* ---- poll queue --------------------------------------------------------
TPollAdd == /\ IsEvent("pollq.add")
            /\ PollAdd(Rec.g, Rec.pk, "start")
            /\ Len(q') = Rec.len

TPollGet == /\ IsEvent("pollq.get")
            /\ q = Rec.pk
            /\ Get1(Rec.g) \/ Get2(Rec.g) \/ GetT(Rec.g)

TPollRet == /\ IsEvent("pollq.ret")
            /\ Ret(Rec.g)
            /\ Len(cur[Rec.g]) = Rec.n

\* a time-out that answers without looking again is honest only when the
\* queue is empty at that moment
TPollRetNoReget ==
            /\ IsEvent("pollq.ret") /\ Rec.via = "timeout" /\ Rec.n = 0
            /\ cpc[Rec.g] = "wait" /\ q = <<>>
            /\ cpc' = [cpc EXCEPT ![Rec.g] = "start"]
            /\ npoll' = [npoll EXCEPT ![Rec.g] = @ + 1]
            /\ got' = [got EXCEPT ![Rec.g] = Append(@, <<>>)]
            /\ UNCHANGED <<q, tok, ppc, cur, taken, added, cleared, sent, closeTok, resetTok, closed, kpc, badEmpty>>

\* ---- packet queue ------------------------------------------------------
TPktAdd  == /\ IsEvent("pq.add")
            /\ PktAppend(Rec.g, Rec.pk)
            /\ Len(q') = Rec.len

TPktWake == /\ IsEvent("pq.wake")
            /\ IF Rec.via = "close" THEN WakeClose(Rec.g) ELSE Wake(Rec.g)

TPktGet  == /\ IsEvent("pq.get")
            /\ q = Rec.pk
            /\ Get1(Rec.g) \/ Get2(Rec.g)

TPktSend == /\ IsEvent("pq.send")
            /\ cur[Rec.g] = Rec.pk
            /\ SendOut(Rec.g)

TPktExit == /\ IsEvent("pq.exit")
            /\ cpc[Rec.g] = "exit"
            /\ cpc' = [cpc EXCEPT ![Rec.g] = "done"]
            /\ UNCHANGED <<q, tok, ppc, cur, npoll, got, taken, added, cleared, sent, closeTok, resetTok, closed, kpc, badEmpty>>

TPktClose == /\ IsEvent("pq.close") /\ CloseEffect /\ UNCHANGED kpc
TPktReset == /\ IsEvent("pq.reset") /\ ResetEffect /\ UNCHANGED kpc

\* ---- silent steps ------------------------------------------------------
Silent == /\ UNCHANGED l
          /\ \/ \E c \in Consumers : Park(c) \/ Timeout(c) \/ DrainSig(c)
                                     \/ (Kind = "poll" /\ Wake(c))
             \/ \E p \in Producers : PktSignal(p, "start")

\* `quiesce`: the harness saw every goroutine blocked or finished.  The
\* specification must agree on the queue length and on who is parked, and the
\* state must not be the one C19 forbids: packets queued while a consumer
\* sleeps in the select with nothing in flight to wake it.
TQuiesce == /\ IsEvent("quiesce")
            /\ Len(q) = Rec.len
            /\ \A i \in 1..Len(Rec.parked) : cpc[Rec.parked[i]] = "wait"
            /\ ~(Len(Rec.parked) > 0 /\ Rec.len > 0)
            /\ UNCHANGED vars

TraceNext == \/ TReset \/ TPollAdd \/ TPollGet \/ TPollRet \/ TPollRetNoReget
             \/ TPktAdd \/ TPktWake \/ TPktGet \/ TPktSend \/ TPktExit \/ TPktClose \/ TPktReset
             \/ TQuiesce
             \/ Silent

TraceSpec == TraceInit /\ [][TraceNext]_tvars

\* acceptance by high-water mark
HWM == IF l > TLCGet(1) THEN TLCSet(1, l) ELSE TRUE
TraceAccepted == IF TLCGet(1) = Len(TraceLog) + 1 THEN TRUE
                 ELSE Print(<<"TRACE_REJECTED_AT", TLCGet(1)>>, FALSE)
=============================================================================
