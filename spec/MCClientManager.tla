-------------------------- MODULE MCClientManager --------------------------
EXTENDS ClientManager
KPVP == <<"plain", "volatile", "plain">>
KPP == <<"plain", "plain">>
KPV == <<"plain", "volatile">>
=============================================================================
