------------------------------ MODULE SioCodec ------------------------------
(***************************************************************************)
(* Socket.IO v5 packet codec (properties C09, C10): parser/json.           *)
(*                                                                         *)
(*  wire format of the first (text) frame, over byte sequences:            *)
(*     <type digit> [<attachments> "-"] [<namespace> ","] [<ack id>] <json> *)
(*     attachments only for BINARY_EVENT (5) / BINARY_ACK (6); the         *)
(*     namespace only when it is not "/"; Binary leaves of the arguments   *)
(*     are replaced by {"_placeholder":true,"num":i}, i = 0..n-1, and      *)
(*     travel as n binary frames in that order.                            *)
(*  Argument trees are uniform records                                     *)
(*     [t, v, n, kids, keys]   t in {"num","str","bool","null","bin","ph", *)
(*                                    "list","map"}                        *)
(*     v: scalar text, n: attachment payload id (bin) / index (ph),        *)
(*     kids: children (list items, map values in key order), keys: map keys*)
(*  The JSON text of scalars is the serializer's business (DESIGN 6).      *)
(***************************************************************************)
EXTENDS Naturals, Sequences, FiniteSets, TLC

(***************************************************************************)
(* header bytes                                                            *)
(***************************************************************************)
Digit(d) == 48 + d
RECURSIVE Digits(_)
Digits(n) == IF n < 10 THEN <<Digit(n)>> ELSE Digits(n \div 10) \o <<Digit(n % 10)>>
Dash == 45
Comma == 44
Slash == 47
IsBinaryType(t) == t \in {5, 6}

\* idDigits: the ack id as its decimal digits (full uint64 range needs no TLC integers); <<>> = none
HeaderBytes(type, att, nsp, idDigits) ==
    <<Digit(type)>>
    \o (IF IsBinaryType(type) THEN Digits(att) \o <<Dash>> ELSE <<>>)
    \o (IF nsp = <<Slash>> \/ nsp = <<>> THEN <<>> ELSE nsp \o <<Comma>>)
    \o idDigits

(***************************************************************************)
(* reference header reader (what a receiver must conclude)                 *)
(***************************************************************************)
IsDigit(b) == b >= 48 /\ b <= 57
RECURSIVE TakeDigits(_, _)
TakeDigits(s, i) == IF i <= Len(s) /\ IsDigit(s[i]) THEN TakeDigits(s, i + 1) ELSE i   \* first index past the digits
RECURSIVE FindByte(_, _, _)
FindByte(s, i, b) == IF i > Len(s) THEN 0 ELSE IF s[i] = b THEN i ELSE FindByte(s, i + 1, b)
RECURSIVE ToNat(_)
ToNat(ds) == IF ds = <<>> THEN 0 ELSE ToNat(SubSeq(ds, 1, Len(ds) - 1)) * 10 + (ds[Len(ds)] - 48)

Bad == [ok |-> FALSE, type |-> 0, att |-> 0, nsp |-> <<>>, id |-> <<>>, rest |-> 0]

\* MaxDigits: longer digit runs cannot be a uint64 / a sane attachment count
ParseHeader(s) ==
    IF Len(s) < 1 \/ ~(s[1] >= 48 /\ s[1] <= 54) THEN Bad
    ELSE LET type == s[1] - 48
             \* attachments
             a1 == 2
             a2 == IF IsBinaryType(type) THEN TakeDigits(s, a1) ELSE a1
             attOK == ~IsBinaryType(type) \/ (a2 > a1 /\ a2 <= Len(s) /\ s[a2] = Dash /\ a2 - a1 <= 9)
             att == IF IsBinaryType(type) /\ attOK THEN ToNat(SubSeq(s, a1, a2 - 1)) ELSE 0
             n1 == IF IsBinaryType(type) THEN a2 + 1 ELSE a1
             \* namespace
             hasNsp == n1 <= Len(s) /\ s[n1] = Slash
             c == IF hasNsp THEN FindByte(s, n1, Comma) ELSE 0
             nspOK == ~hasNsp \/ c # 0
             nsp == IF hasNsp /\ c # 0 THEN SubSeq(s, n1, c - 1) ELSE <<Slash>>
             i1 == IF hasNsp THEN c + 1 ELSE n1
             \* ack id
             i2 == IF nspOK THEN TakeDigits(s, i1) ELSE i1
             idOK == i2 - i1 <= 20
         IN IF attOK /\ nspOK /\ idOK
              THEN [ok |-> TRUE, type |-> type, att |-> att, nsp |-> nsp, id |-> SubSeq(s, i1, i2 - 1), rest |-> i2]
              ELSE Bad

\* reading back what was written gives the same fields, for every header
RoundTrip(type, att, nsp, idDigits, tail) ==
    LET r == ParseHeader(HeaderBytes(type, att, nsp, idDigits) \o tail) IN
      r.ok /\ r.type = type /\ r.att = (IF IsBinaryType(type) THEN att ELSE 0)
           /\ r.nsp = (IF nsp = <<>> THEN <<Slash>> ELSE nsp) /\ r.id = idDigits

(***************************************************************************)
(* argument trees and placeholders                                         *)
(***************************************************************************)
RECURSIVE PhIndexes(_), SumSeqLen(_)
SumSeqLen(q) == IF q = <<>> THEN 0 ELSE Len(q[1]) + SumSeqLen(Tail(q))
\* sequence of placeholder indexes in the tree, in traversal order
PhIndexes(node) ==
    IF node.t = "ph" THEN <<node.n>>
    ELSE LET ks == node.kids IN
         IF ks = <<>> THEN <<>>
         ELSE LET RECURSIVE Cat(_)
                  Cat(i) == IF i > Len(ks) THEN <<>> ELSE PhIndexes(ks[i]) \o Cat(i + 1)
              IN Cat(1)

RECURSIVE Subst(_, _)
\* put the attachments (payload ids) back in place of the placeholders
Subst(node, atts) ==
    IF node.t = "ph"
      THEN IF node.n + 1 \in 1..Len(atts) THEN [t |-> "bin", v |-> "", n |-> atts[node.n + 1], kids |-> <<>>, keys |-> <<>>]
                                           ELSE [t |-> "error", v |-> "", n |-> 0, kids |-> <<>>, keys |-> <<>>]
      ELSE [node EXCEPT !.kids = [i \in 1..Len(node.kids) |-> Subst(node.kids[i], atts)]]

Range(q) == {q[i] : i \in 1..Len(q)}
\* the placeholders of an encoded tree are exactly 0..n-1, each once, n = number of attachments,
\* and putting the attachments back gives the original tree
PlaceholdersOK(encoded, original, atts) ==
    LET idx == PhIndexes(encoded) IN
    /\ Len(idx) = Len(atts)
    /\ Range(idx) = 0..(Len(atts) - 1)
    /\ Subst(encoded, atts) = original

(***************************************************************************)
(* receiver machine (C10): Idle, or collecting `rem` more binary frames    *)
(***************************************************************************)
\* one frame arrives.  kind: "text" with its parsed header class, or "binary"
\* result: [out |-> "finish" | "error" | "none", rem |-> frames still expected]
Step(rem, isText, hdrOK, binaryType, att) ==
    IF rem = 0
      THEN IF ~isText THEN [out |-> "text-expected", rem |-> 0]          \* (the code treats any frame as a header when idle)
           ELSE IF ~hdrOK THEN [out |-> "error", rem |-> 0]
           ELSE IF binaryType /\ att > 0 THEN [out |-> "none", rem |-> att]
           ELSE [out |-> "finish", rem |-> 0]
      ELSE \* collecting: every frame counts as an attachment
           IF rem = 1 THEN [out |-> "finish", rem |-> 0] ELSE [out |-> "none", rem |-> rem - 1]

\* the machine is total and never expects a negative number of frames
CONSTANTS MaxAtt
VARIABLES rem, out
vars == <<rem, out>>
Init == rem = 0 /\ out = "none"
Next == \E isText \in BOOLEAN, ok \in BOOLEAN, bt \in BOOLEAN, att \in 0..MaxAtt :
            LET r == Step(rem, isText, ok, bt, att) IN rem' = r.rem /\ out' = r.out
Spec == Init /\ [][Next]_vars
NeverNegative == rem \in 0..MaxAtt
Total == out \in {"finish", "error", "none", "text-expected"}

\* bounded check of the header functions (evaluated once, inside one state)
HeaderInv ==
    \A type \in 0..6, att \in {0, 1, 9, 10, 123}, id \in {<<>>, <<48>>, <<49, 50>>, <<49,56,52,52,54,55,52,52,48,55,51,55,48,57,53,53,49,54,49,53>>} :
      \A nsp \in {<<>>, <<Slash>>, <<Slash, 97>>, <<Slash, 97, Slash, 98>>, <<Slash, 195, 169, 32, 34>>} :
        \A tail \in {<<>>, <<91, 93>>, <<123, 125>>, <<91, 34, 97, 34, 93>>} :
           Len(id) <= 20 => RoundTrip(type, att, nsp, id, tail)
=============================================================================
