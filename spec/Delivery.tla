------------------------------ MODULE Delivery ------------------------------
(***************************************************************************)
(* The event pipeline of one connection in one direction (C01, C02):       *)
(*   emit (client_socket.go / server_socket.go): encode -> 1 + n frames    *)
(*   packetQueue.add: all frames of one packet in one critical section     *)
(*   pollAndSend: the single sender goroutine takes the whole queue and    *)
(*        hands it to the Engine.IO socket, batch after batch              *)
(*   transport: FIFO on a settled transport                                *)
(*   onEIOPacket: frames into the parser under parserMu; a packet finishes *)
(*        when its last frame arrived; onParserFinish starts ONE GOROUTINE *)
(*        PER PACKET (server_conn.go / client_manager.go)                  *)
(*   dispatch goroutine: routing, decode, handler entry                    *)
(* Packets are <<g, k>>: the k-th emit of goroutine g; frames <<g, k, i>>. *)
(* Deviations: "DispatchReorder" - the handler of a later packet is        *)
(*        entered while the goroutine of an earlier packet of the same     *)
(*        emitter has not entered yet (what one goroutine per packet       *)
(*        allows: recorded finding K3); "SplitAdd" - frames appended one   *)
(*        by one; "LifoDrain" - the sender reverses a batch                *)
(***************************************************************************)
EXTENDS Naturals, Sequences, FiniteSets, TLC

CONSTANTS Emitters, PerEmitter, Att, Dev
\* Att : <<g,k>> -> number of attachments

Packets == {<<g, k>> : g \in Emitters, k \in 1..PerEmitter}
Frames(p) == [i \in 1..(Att[p] + 1) |-> <<p[1], p[2], i>>]

VARIABLES
    next,      \* g -> next emit index
    adding,    \* g -> frames of the packet being appended (only with SplitAdd)
    queue,     \* packet queue: sequence of frames
    wire,      \* frames handed to the transport, in order
    rcvd,      \* how many frames of `wire` the receiver has taken
    asm,       \* frames of the packet being reassembled
    finished,  \* packets in the order the parser finished them
    started,   \* packets whose dispatch goroutine was started but has not entered the handler
    entered    \* packets in the order their handlers were entered

vars == <<next, adding, queue, wire, rcvd, asm, finished, started, entered>>

Init == /\ next = [g \in Emitters |-> 1] /\ adding = [g \in Emitters |-> <<>>]
        /\ queue = <<>> /\ wire = <<>> /\ rcvd = 0 /\ asm = <<>> /\ finished = <<>> /\ started = {} /\ entered = <<>>

\* Emit: encode, then append every frame of the packet in one critical section
Emit(g) ==
    /\ next[g] <= PerEmitter /\ adding[g] = <<>>
    /\ LET p == <<g, next[g]>> IN
         IF "SplitAdd" \in Dev
           THEN adding' = [adding EXCEPT ![g] = Frames(p)] /\ UNCHANGED queue
           ELSE queue' = queue \o Frames(p) /\ UNCHANGED adding
    /\ next' = [next EXCEPT ![g] = @ + 1]
    /\ UNCHANGED <<wire, rcvd, asm, finished, started, entered>>
AddOne(g) == /\ adding[g] # <<>>
             /\ queue' = Append(queue, Head(adding[g])) /\ adding' = [adding EXCEPT ![g] = Tail(@)]
             /\ UNCHANGED <<next, wire, rcvd, asm, finished, started, entered>>

Reverse(s) == [i \in 1..Len(s) |-> s[Len(s) + 1 - i]]
\* the sender goroutine takes everything queued and sends it as one batch
Drain == /\ queue # <<>>
         /\ wire' = wire \o (IF "LifoDrain" \in Dev THEN Reverse(queue) ELSE queue)
         /\ queue' = <<>>
         /\ UNCHANGED <<next, adding, rcvd, asm, finished, started, entered>>

\* the receiver takes the next frame from the wire (FIFO) into the parser
Recv == /\ rcvd < Len(wire)
        /\ LET f == wire[rcvd + 1]  p == <<f[1], f[2]>> IN
             /\ rcvd' = rcvd + 1
             /\ IF Len(asm) + 1 = Att[p] + 1 /\ (asm = <<>> \/ <<asm[1][1], asm[1][2]>> = p)
                  THEN /\ asm' = <<>> /\ finished' = Append(finished, p)      \* last frame: finish, start a goroutine
                       /\ started' = started \cup {p}
                  ELSE /\ asm' = Append(asm, f) /\ UNCHANGED <<finished, started>>
        /\ UNCHANGED <<next, adding, queue, wire, entered>>

Pos(s, x) == CHOOSE i \in 1..Len(s) : s[i] = x
\* a dispatch goroutine enters the handler
Enter(p) ==
    /\ p \in started
    /\ ("DispatchReorder" \in Dev \/
        \A q \in started : (q[1] = p[1] /\ q # p) => Pos(finished, p) < Pos(finished, q))
    /\ entered' = Append(entered, p) /\ started' = started \ {p}
    /\ UNCHANGED <<next, adding, queue, wire, rcvd, asm, finished>>

Next == (\E g \in Emitters : Emit(g) \/ AddOne(g)) \/ Drain \/ Recv \/ (\E p \in Packets : Enter(p))
Spec == Init /\ [][Next]_vars

(***************************************************************************)
(* Properties                                                              *)
(***************************************************************************)
\* C02: the frames of one packet are adjacent on the wire and in order
FramesContiguous ==
    \A i \in 1..Len(wire) : LET f == wire[i] IN
        f[3] > 1 => (i > 1 /\ wire[i - 1] = <<f[1], f[2], f[3] - 1>>)

\* C02: packets of one emitter are on the wire in emit order
WireOrderPerEmitter ==
    \A i, j \in 1..Len(wire) : (i < j /\ wire[i][1] = wire[j][1]) => wire[i][2] <= wire[j][2]

\* packets are finished in wire order, each once
FinishOnce == \A i, j \in 1..Len(finished) : i # j => finished[i] # finished[j]
FinishOrder == \A i, j \in 1..Len(finished) : (i < j /\ finished[i][1] = finished[j][1]) => finished[i][2] < finished[j][2]

\* C01: every packet reaches its handler exactly once (when nothing can move any more)
EnteredOnce == \A i, j \in 1..Len(entered) : i # j => entered[i] # entered[j]
ExactlyOnce == (~ENABLED Next) => ({entered[i] : i \in 1..Len(entered)} = Packets /\ EnteredOnce)

\* C02(b): handlers of one emitter's packets are entered in emit order
HandlerOrderPerEmitter ==
    \A i, j \in 1..Len(entered) : (i < j /\ entered[i][1] = entered[j][1]) => entered[i][2] < entered[j][2]
=============================================================================
