------------------------------ MODULE RoomsOps ------------------------------
(* Reference semantics of broadcast targets, shared by Rooms.tla (design)   *)
(* and RoomsTrace.tla (binding to adapter_memory.go).                       *)
EXTENDS Naturals, Sequences

(***************************************************************************)
(* Reference semantics (sequential): who a broadcast to T except E reaches *)
(***************************************************************************)
\* mem : socket -> set of rooms (sockets without an entry are absent from DOMAIN)
Recipients(mem, live, T, E) ==
    {s \in DOMAIN mem \cap live : (T = {} \/ mem[s] \cap T # {}) /\ mem[s] \cap E = {}}


\* membership after the three adapter operations (mem is a function with a dynamic domain)
MemOf(mem, s) == IF s \in DOMAIN mem THEN mem[s] ELSE {}
MemAdd(mem, s, R) == [x \in DOMAIN mem \cup {s} |-> IF x = s THEN MemOf(mem, s) \cup R ELSE mem[x]]
MemDel(mem, s, r) == [x \in DOMAIN mem |-> IF x = s THEN mem[x] \ {r} ELSE mem[x]]
MemDelAll(mem, s) == [x \in DOMAIN mem \ {s} |-> mem[x]]
SeqToSet(q) == {q[i] : i \in 1..Len(q)}
=============================================================================
