---------------------------- MODULE ClientManager ----------------------------
(***************************************************************************)
(* The Go client: Manager connection state machine with reconnection and   *)
(* one client socket with its offline buffer (property C15).               *)
(*                                                                         *)
(*  client_manager_conn.go  connect / reconnect (both under connectMu; the *)
(*        reconnect loop keeps connectMu for the whole outage)             *)
(*  client_manager.go       open, maybeReconnectOnOpen, onClose, Close     *)
(*  backoff.go              numAttempts                                    *)
(*  client_socket.go        Connect, the open sub-event (CONNECT packet),  *)
(*        onConnect (state, then flush of the send buffer), _sendBuffers   *)
(*        (send at once / buffer / drop), onClose                          *)
(*  server side             a CONNECT creates the namespace socket and is  *)
(*        answered; an EVENT for a namespace the connection has not joined *)
(*        is a protocol error: the server closes the connection            *)
(*                                                                         *)
(* Goroutines: any number of open() and reconnect() goroutines wait for    *)
(* connectMu (`waiting`), one holds it (`act`).  The environment takes the *)
(* link down and up; a connection that is alive while the link is down is  *)
(* lost after a while (transport error or ping time-out).                  *)
(*                                                                         *)
(* Deviations (what the code did before the repairs recorded in DESIGN):   *)
(*   "SendWhilePending"  _sendBuffers sends at once while the CONNECT is   *)
(*                       still unanswered                                  *)
(*   "FlushWindow"       onConnect sets the state first and flushes later, *)
(*                       an emit in between overtakes the buffered ones    *)
(*   "FlushAbort"        emitBuffered returns before flushing              *)
(*   "OffByOne"          gives up after Limit + 1 failures                 *)
(*   "EarlyCloseLost"    a close reported between Dial returning and the   *)
(*                       state write is overwritten by "connected"         *)
(***************************************************************************)
EXTENDS Naturals, Sequences, FiniteSets, TLC

CONSTANTS Limit,        \* ReconnectionAttempts; 0 = retry for ever
          MaxCloses,    \* how many times the user calls Socket.Disconnect
          MaxOutages,   \* how many times the link goes down
          MaxConnects,  \* how many times the user calls Socket.Connect
          Kinds,        \* sequence of "plain" | "volatile": the events the user emits, in order
          Cap,          \* numAttempts saturates here (model bound only)
          Dev

NEv == Len(Kinds)
CONN == 0             \* the CONNECT packet among the event numbers on the wire

VARIABLES
    link, outages,
    mstate, attempts, skip,
    waiting,      \* [open |-> n, rec |-> n] goroutines blocked on connectMu
    act,          \* the goroutine holding connectMu: [kind, pc]; kind "none" when free
    post,         \* open() goroutines between a failed connect and maybeReconnectOnOpen
    conn,         \* [alive, active, joined]: Engine.IO connection, its callbacks active, namespace socket on the server
    sstate, sactive, flushing,
    inflight,     \* client -> server, FIFO: CONN (0) or event numbers
    reply,        \* a CONNECT reply is on its way to the client
    sendBuf,
    delivered,    \* event numbers in the order the server's handler was entered
    nextEv, class,\* class[e]: how the socket was when e was emitted
    connects, closes, closed,
    fails, failed,\* failed reconnect attempts / reconnect_failed announcements in this round
    excused       \* events that were on the wire when the link took their connection away
vars == <<link, outages, mstate, attempts, skip, waiting, act, post, conn, sstate, sactive, flushing,
          inflight, reply, sendBuf, delivered, nextEv, class, connects, closes, closed, fails, failed, excused>>

Range(s) == {s[i] : i \in 1..Len(s)}
None == [kind |-> "none", pc |-> ""]
NoConn == [alive |-> FALSE, active |-> FALSE, joined |-> FALSE]

Init ==
    /\ link = "up" /\ outages = 0
    /\ mstate = "disconnected" /\ attempts = 0 /\ skip = FALSE
    /\ waiting = [open |-> 0, rec |-> 0] /\ act = None /\ post = 0
    /\ conn = NoConn
    /\ sstate = "disconnected" /\ sactive = FALSE /\ flushing = FALSE
    /\ inflight = <<>> /\ reply = FALSE /\ sendBuf = <<>> /\ delivered = <<>>
    /\ nextEv = 1 /\ class = <<>> /\ connects = 0 /\ closes = 0 /\ closed = FALSE /\ fails = 0 /\ failed = 0 /\ excused = {}

(***************************************************************************)
(* the user                                                                *)
(***************************************************************************)
\* Socket.Connect
UConnect ==
    /\ connects < MaxConnects /\ sstate # "connected"
    /\ connects' = connects + 1 /\ closed' = FALSE
    /\ sactive' = TRUE
    /\ waiting' = IF mstate # "reconnecting" THEN [waiting EXCEPT !.open = @ + 1] ELSE waiting
    /\ IF mstate = "connected" /\ sstate # "pending"
         THEN sstate' = "pending" /\ inflight' = Append(inflight, CONN)
         ELSE UNCHANGED <<sstate, inflight>>
    /\ UNCHANGED <<link, outages, mstate, attempts, skip, act, post, conn, flushing, reply, sendBuf, delivered, nextEv, class, fails, failed, closes, excused>>

\* Socket.Emit / Socket.Volatile().Emit: _sendBuffers
SendNow == \/ sstate = "connected" /\ (("FlushWindow" \in Dev) \/ (sendBuf = <<>> /\ ~flushing))
           \/ sstate = "pending" /\ "SendWhilePending" \in Dev
UEmit ==
    /\ nextEv <= NEv
    /\ LET e == nextEv IN
       /\ nextEv' = nextEv + 1
       /\ class' = Append(class, sstate)
       /\ IF SendNow
            THEN /\ inflight' = IF conn.alive THEN Append(inflight, e) ELSE inflight   \* into a dead connection: lost
                 /\ UNCHANGED sendBuf
            ELSE IF Kinds[e] = "volatile"
                   THEN UNCHANGED <<inflight, sendBuf>>                                \* dropped
                   ELSE sendBuf' = Append(sendBuf, e) /\ UNCHANGED inflight
    /\ UNCHANGED <<link, outages, mstate, attempts, skip, waiting, act, post, conn, sstate, sactive, flushing, reply, delivered, connects, fails, failed, closes, closed, excused>>

\* Socket.Disconnect of the only socket: destroy -> Manager.Close (skipReconnect, onClose, eio.Close)
UClose ==
    /\ closes < MaxCloses /\ sactive
    /\ act.pc # "dialed"        \* model restriction: a Disconnect does not fall between Dial returning and the state write
    /\ closes' = closes + 1 /\ closed' = TRUE
    /\ sactive' = FALSE /\ sstate' = "disconnected" /\ flushing' = FALSE
    /\ mstate' = "disconnected" /\ skip' = TRUE /\ attempts' = 0
    /\ conn' = NoConn /\ inflight' = <<>> /\ reply' = FALSE
    /\ excused' = excused \cup (Range(inflight) \ {CONN})
    /\ UNCHANGED <<link, outages, waiting, act, post, sendBuf, delivered, nextEv, class, connects, fails, failed>>

(***************************************************************************)
(* the environment                                                         *)
(***************************************************************************)
LinkDown == /\ link = "up" /\ outages < MaxOutages
            /\ link' = "down" /\ outages' = outages + 1
            /\ UNCHANGED <<mstate, attempts, skip, waiting, act, post, conn, sstate, sactive, flushing, inflight, reply, sendBuf, delivered, nextEv, class, connects, fails, failed, closes, closed, excused>>
LinkUp ==   /\ link = "down" /\ link' = "up"
            /\ UNCHANGED <<outages, mstate, attempts, skip, waiting, act, post, conn, sstate, sactive, flushing, inflight, reply, sendBuf, delivered, nextEv, class, connects, fails, failed, closes, closed, excused>>

\* Manager.onClose for the current connection (only while its callbacks are active)
OnClose(kicked) ==
    /\ conn.alive /\ (link = "down" \/ kicked)
    \* a close reported while connect has not recorded the connection yet is kept until it has
    /\ (act.pc # "dialed" \/ "EarlyCloseLost" \in Dev)
    /\ conn' = [conn EXCEPT !.alive = FALSE, !.active = FALSE, !.joined = FALSE]
    /\ inflight' = <<>> /\ reply' = FALSE                 \* whatever was on the wire is gone
    /\ excused' = IF kicked THEN excused ELSE excused \cup (Range(inflight) \ {CONN})
    /\ IF conn.active
         THEN /\ attempts' = 0 /\ fails' = 0 /\ failed' = 0
              /\ mstate' = "disconnected"
              /\ sstate' = IF sactive THEN "disconnected" ELSE sstate
              /\ flushing' = FALSE
              /\ waiting' = IF ~skip THEN [waiting EXCEPT !.rec = @ + 1] ELSE waiting
         ELSE UNCHANGED <<attempts, fails, failed, mstate, sstate, flushing, waiting>>
    /\ UNCHANGED <<link, outages, skip, act, post, sactive, sendBuf, delivered, nextEv, class, connects, closes, closed>>

(***************************************************************************)
(* goroutines under connectMu                                              *)
(***************************************************************************)
Acquire(k) == /\ act.kind = "none" /\ waiting[k] > 0
              /\ waiting' = [waiting EXCEPT ![k] = @ - 1]
              /\ act' = [kind |-> k, pc |-> "start"]
              /\ UNCHANGED <<link, outages, mstate, attempts, skip, post, conn, sstate, sactive, flushing, inflight, reply, sendBuf, delivered, nextEv, class, connects, fails, failed, closes, closed, excused>>
Release == act' = None
Goto(pc) == act' = [act EXCEPT !.pc = pc]
K1 == UNCHANGED <<link, outages, waiting, post, conn, sstate, sactive, flushing, inflight, reply, sendBuf, delivered, nextEv, class, connects, closes, closed, excused>>

\* connect(false): prologue
OStart == /\ act.kind = "open" /\ act.pc = "start"
          /\ skip' = FALSE
          /\ IF mstate = "connected" THEN Release /\ UNCHANGED mstate
                                     ELSE mstate' = "connecting" /\ Goto("dial")
          /\ UNCHANGED <<attempts, fails, failed>> /\ K1

\* eio.Dial
DialOK ==   /\ act.pc = "dial" /\ link = "up"
            /\ conn' = [alive |-> TRUE, active |-> TRUE, joined |-> FALSE]
            /\ inflight' = <<>> /\ reply' = FALSE
            /\ Goto("dialed")
            /\ UNCHANGED <<link, outages, mstate, attempts, skip, waiting, post, sstate, sactive, flushing, sendBuf, delivered, nextEv, class, connects, fails, failed, closes, closed, excused>>
DialFail == /\ act.pc = "dial" /\ link = "down"
            /\ mstate' = "disconnected"
            /\ IF act.kind = "open"
                 THEN Release /\ post' = post + 1 /\ UNCHANGED fails
                 ELSE Goto("failed") /\ fails' = (IF fails <= Cap THEN fails + 1 ELSE fails) /\ UNCHANGED post   \* (saturates: model bound)
            /\ UNCHANGED <<link, outages, attempts, skip, waiting, conn, sstate, sactive, flushing, inflight, reply, sendBuf, delivered, nextEv, class, connects, failed, closes, closed, excused>>
\* after Dial returned: state, then the open handlers (each active socket sends its CONNECT)
SetConnected ==
    /\ act.pc = "dialed"
    /\ mstate' = "connected"
    /\ IF sactive /\ sstate # "pending"
         THEN sstate' = "pending" /\ inflight' = IF conn.alive THEN Append(inflight, CONN) ELSE inflight
         ELSE UNCHANGED <<sstate, inflight>>
    /\ IF act.kind = "open" THEN Release /\ UNCHANGED attempts
                            ELSE Release /\ attempts' = 0                 \* onReconnect
    /\ UNCHANGED <<link, outages, skip, waiting, post, conn, sactive, flushing, reply, sendBuf, delivered, nextEv, class, connects, fails, failed, closes, closed, excused>>

\* open(): maybeReconnectOnOpen after a failed connect
PostOpen == /\ post > 0 /\ post' = post - 1
            /\ waiting' = IF attempts = 0 THEN [waiting EXCEPT !.rec = @ + 1] ELSE waiting
            /\ UNCHANGED <<link, outages, mstate, attempts, skip, act, conn, sstate, sactive, flushing, inflight, reply, sendBuf, delivered, nextEv, class, connects, fails, failed, closes, closed, excused>>

\* reconnect(false): prologue, then the loop
RStart == /\ act.kind = "rec" /\ act.pc = "start"
          /\ IF skip \/ mstate # "disconnected"
               THEN Release /\ UNCHANGED <<mstate, fails, failed>>
               ELSE mstate' = "reconnecting" /\ Goto("loop") /\ fails' = 0 /\ failed' = 0   \* a new round
          /\ UNCHANGED <<attempts, skip>> /\ K1
GiveUp == Limit > 0 /\ attempts >= (IF "OffByOne" \in Dev THEN Limit + 1 ELSE Limit)
RLoop ==  /\ act.kind = "rec" /\ act.pc = "loop"
          /\ IF GiveUp
               THEN /\ attempts' = 0 /\ mstate' = "disconnected" /\ failed' = failed + 1 /\ Release
               ELSE /\ attempts' = IF attempts < Cap THEN attempts + 1 ELSE attempts
                    /\ Goto("sleep") /\ UNCHANGED <<mstate, failed>>
          /\ UNCHANGED <<skip, fails>> /\ K1
RWake ==  /\ act.kind = "rec" /\ act.pc = "sleep"
          /\ IF skip THEN Release /\ UNCHANGED mstate
             ELSE IF mstate = "connected" THEN Release /\ UNCHANGED mstate   \* connect(true) returns nil: "reconnected"
             ELSE mstate' = "connecting" /\ Goto("dial")
          /\ UNCHANGED <<attempts, skip, fails, failed>> /\ K1
\* the attempt failed: reconnect_error, then reconnect(true)
RFailed == /\ act.kind = "rec" /\ act.pc = "failed"
           /\ IF mstate # "disconnected" THEN Release /\ UNCHANGED mstate
                                         ELSE mstate' = "reconnecting" /\ Goto("loop")
           /\ UNCHANGED <<attempts, skip, fails, failed>> /\ K1

(***************************************************************************)
(* packets                                                                 *)
(***************************************************************************)
\* the server takes the next packet of the connection
SrvTake ==
    /\ conn.alive /\ inflight # <<>> /\ (Head(inflight) = CONN \/ conn.joined)
    /\ LET p == Head(inflight) IN
       /\ inflight' = Tail(inflight)
       /\ IF p = CONN
            THEN conn' = [conn EXCEPT !.joined = TRUE] /\ reply' = TRUE /\ UNCHANGED delivered
            ELSE delivered' = Append(delivered, p) /\ UNCHANGED <<conn, reply>>
    /\ UNCHANGED <<link, outages, mstate, attempts, skip, waiting, act, post, sstate, sactive, flushing, sendBuf, nextEv, class, connects, fails, failed, closes, closed, excused>>
\* an EVENT for a namespace that was not joined: the server closes the connection
SrvKick == /\ conn.alive /\ inflight # <<>> /\ Head(inflight) # CONN /\ ~conn.joined
           /\ OnClose(TRUE)

\* clientSocket.onConnect: the state first ...
CliOnConnect ==
    /\ reply /\ conn.alive /\ conn.active /\ sstate = "pending"
    /\ reply' = FALSE /\ sstate' = "connected" /\ flushing' = TRUE
    /\ UNCHANGED <<link, outages, mstate, attempts, skip, waiting, act, post, conn, sactive, inflight, sendBuf, delivered, nextEv, class, connects, fails, failed, closes, closed, excused>>
\* ... then emitBuffered: everything parked goes out in one piece
CliFlush ==
    /\ flushing /\ flushing' = FALSE
    /\ IF "FlushAbort" \in Dev THEN UNCHANGED <<inflight, sendBuf>>
       ELSE /\ inflight' = IF conn.alive THEN inflight \o sendBuf ELSE inflight
            /\ sendBuf' = <<>>
    /\ UNCHANGED <<link, outages, mstate, attempts, skip, waiting, act, post, conn, sstate, sactive, reply, delivered, nextEv, class, connects, fails, failed, closes, closed, excused>>

Sys == \/ Acquire("open") \/ Acquire("rec") \/ OStart \/ DialOK \/ DialFail \/ SetConnected \/ PostOpen
       \/ RStart \/ RLoop \/ RWake \/ RFailed \/ SrvTake \/ SrvKick \/ CliOnConnect \/ CliFlush
       \/ OnClose(FALSE)
Next == UConnect \/ UEmit \/ UClose \/ LinkDown \/ LinkUp \/ Sys
Spec == Init /\ [][Next]_vars /\ WF_vars(Sys) /\ WF_vars(LinkUp)

(***************************************************************************)
(* properties                                                              *)
(***************************************************************************)
TypeOK == /\ mstate \in {"disconnected", "connecting", "connected", "reconnecting"}
          /\ sstate \in {"disconnected", "pending", "connected"}
          /\ attempts \in 0..Cap /\ failed \in 0..1

\* the counter never passes the limit, and reconnect_failed comes after exactly Limit failed attempts
AttemptsBounded == Limit > 0 => attempts <= Limit
FailedAfterLimit == [][failed' = failed + 1 => (Limit > 0 /\ fails = Limit)]_vars
FailedOnce == failed <= 1

\* nothing is delivered twice, ever
NoDup == \A i, j \in 1..Len(delivered) : i # j => delivered[i] # delivered[j]
\* events emitted while the socket was not connected
Offline == {e \in 1..Len(class) : class[e] # "connected"}
\* ... keep their order
OfflineOrder == \A i, j \in 1..Len(delivered) :
                   (i < j /\ delivered[i] \in Offline /\ delivered[j] \in Offline) => delivered[i] < delivered[j]
\* ... volatile ones never arrive
VolatileDropped == \A e \in Offline : Kinds[e] = "volatile" => e \notin Range(delivered)
\* ... per-emitter order overall (one user goroutine emits): C02 seen from here
EmitOrder == \A i, j \in 1..Len(delivered) : i < j => delivered[i] < delivered[j]

GaveUp == failed > 0
Settled == (mstate = "connected" /\ sstate = "connected" /\ conn.alive /\ ~flushing /\ inflight = <<>> /\ sendBuf = <<>>)
\* when nothing can move any more: connected (unless it gave up or never asked), and every
\* non-volatile event emitted offline has arrived
Quiet == ~ENABLED Next
AtRest == Quiet => \/ connects = 0 \/ closed
                   \/ GaveUp
                   \/ /\ Settled
                      /\ \A e \in Offline : Kinds[e] # "volatile" => (e \in Range(delivered) \/ e \in excused)
\* liveness: once the link stays up the client gets (back) in, unless it gave up
EventuallySettled == <>[](connects > 0 => (Settled \/ GaveUp \/ closed))
=============================================================================
