------------------------------ MODULE Batcher ------------------------------
(***************************************************************************)
(* The Engine.IO client's write batching for long-polling (property C13):  *)
(* engine.io/client_socket.go writeWritablePackets.  A Send call of n      *)
(* packets becomes a sequence of batches, each one HTTP POST.  A packet is *)
(* its encoded length (type character + data, base64 for binary); the      *)
(* payload of a batch joins its packets with one separator byte.           *)
(*                                                                         *)
(* Contract (what C13 states):                                             *)
(*   - concatenating the batches gives back the packets, in order          *)
(*   - no batch is empty                                                   *)
(*   - a batch of several packets never exceeds maxPayload (a single       *)
(*     packet cannot be split, so it may)                                  *)
(* Split is the greedy algorithm the client is meant to implement; TLC     *)
(* checks that it satisfies the contract on the whole bounded domain, and  *)
(* the trace specification checks the contract on what the real code did.  *)
(***************************************************************************)
EXTENDS Naturals, Sequences, TLC

RECURSIVE SumSeq(_), Flatten(_), SplitFrom(_, _, _, _)

SumSeq(s) == IF s = <<>> THEN 0 ELSE Head(s) + SumSeq(Tail(s))

\* encoded length of a long-polling payload holding packets with these encoded lengths
PayloadLen(b) == SumSeq(b) + (Len(b) - 1)

Flatten(bs) == IF bs = <<>> THEN <<>> ELSE Head(bs) \o Flatten(Tail(bs))

Contract(enc, max, bs) ==
    /\ Flatten(bs) = enc
    /\ \A i \in 1..Len(bs) : bs[i] # <<>>
    /\ \A i \in 1..Len(bs) : Len(bs[i]) >= 2 => PayloadLen(bs[i]) <= max

\* greedy: keep adding packets while the payload stays within max
SplitFrom(enc, max, cur, acc) ==
    IF enc = <<>> THEN (IF cur = <<>> THEN acc ELSE Append(acc, cur))
    ELSE LET p == Head(enc) IN
         IF cur # <<>> /\ PayloadLen(Append(cur, p)) > max
           THEN SplitFrom(Tail(enc), max, <<p>>, Append(acc, cur))
           ELSE SplitFrom(Tail(enc), max, Append(cur, p), acc)

Split(enc, max) == SplitFrom(enc, max, <<>>, <<>>)

\* greedy never splits needlessly: two neighbouring batches would not fit together
NoNeedlessSplit(max, bs) ==
    \A i \in 1..(Len(bs) - 1) : PayloadLen(bs[i] \o <<bs[i + 1][1]>>) > max

(***************************************************************************)
(* Bounded exhaustive check of the specification function                  *)
(***************************************************************************)
CONSTANTS Sizes, MaxLen, MaxPayloads

VARIABLES enc, max
vars == <<enc, max>>

RECURSIVE SeqsUpTo(_)
SeqsUpTo(n) == IF n = 0 THEN {<<>>}
               ELSE LET S == SeqsUpTo(n - 1) IN S \cup {Append(s, x) : s \in {t \in S : Len(t) = n - 1}, x \in Sizes}

Init == enc \in SeqsUpTo(MaxLen) /\ max \in MaxPayloads
Next == UNCHANGED vars
Spec == Init /\ [][Next]_vars

SplitMeetsContract == Contract(enc, max, Split(enc, max))
SplitIsGreedy == NoNeedlessSplit(max, Split(enc, max))
=============================================================================
