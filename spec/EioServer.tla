------------------------------ MODULE EioServer ------------------------------
(***************************************************************************)
(* Engine.IO server admission (property C17): engine.io/server.go          *)
(* ServeHTTP / handleHandshake / newSocket / Close, engine.io/store.go.    *)
(*                                                                         *)
(* Part 1 - Decide: the decision table of ServeHTTP as a function of the   *)
(* request class.  The trace specification applies it to the answers of a  *)
(* real server for the whole request matrix.                               *)
(* Part 2 - handshakes racing Close, at the granularity of the code's      *)
(* steps: CheckClosed, Auth, GenSid, StoreSet, Recheck / SetClosed,        *)
(* Snapshot, CloseEach.  Deviation "NoRecheck" is the code before fix F12. *)
(***************************************************************************)
EXTENDS Naturals, Sequences, FiniteSets, TLC

Methods == {"GET", "POST", "PUT", "DELETE", "OPTIONS", "HEAD"}
Eios == {"absent", "3", "4", "5", "junk"}
Transports == {"absent", "polling", "websocket", "junk"}
Sids == {"absent", "unknown", "live", "closed"}

\* status classes: "503" "400" "200" "err" (any status >= 400 chosen by the websocket library)
\* code: protocol error code 0..5, or -1 for none
\* effect: "none" | "new" (a session is created) | "poll" | "data" (an existing session serves the request)
R(status, code, effect) == [status |-> status, code |-> code, effect |-> effect]

Decide(closed, method, eio, transport, sid) ==
    IF closed THEN R("503", 0 - 1, "none")
    ELSE IF eio # "4" THEN R("400", 5, "none")                       \* unsupported protocol version
    ELSE IF sid = "absent" THEN
        IF method # "GET" THEN R("400", 2, "none")                   \* bad handshake method
        ELSE IF transport = "polling" THEN R("200", 0 - 1, "new")
        ELSE IF transport = "websocket" THEN R("err", 0 - 1, "none") \* a plain HTTP request is no websocket handshake
        ELSE R("400", 0, "none")                                     \* transport unknown
    ELSE IF sid \in {"unknown", "closed"} THEN R("400", 1, "none")   \* session id unknown
    ELSE \* live long-polling session
        IF transport = "polling" THEN
            IF method = "GET" THEN R("200", 0 - 1, "poll")
            ELSE IF method = "POST" THEN R("200", 0 - 1, "data")
            ELSE R("400", 3, "none")                                 \* bad request
        ELSE IF transport = "websocket" THEN R("err", 0 - 1, "none") \* failed upgrade handshake
        ELSE R("400", 3, "none")

\* Real websocket handshakes (an HTTP Upgrade request) that name a session.  Only a live session that is
\* still on long-polling may be upgraded; for every other session state the request is refused and the
\* session it names is left as it is (a second "upgrade" of an upgraded session must not take it over).
WsSids == {"unknown", "closed", "polling", "upgraded", "wsdirect"}
\* result: "101" (switching protocols) or "refused" (any status >= 400); takeover: may the new connection
\* become the session's transport after it sent the probe and the UPGRADE packet
DecideWs(sidState) ==
    IF sidState = "polling" THEN [status |-> "101", takeover |-> TRUE]
    ELSE [status |-> "refused", takeover |-> FALSE]

\* theorems of the table (checked by TLC over the whole matrix)
ErrorsCreateNothing ==
    \A c \in BOOLEAN, m \in Methods, e \in Eios, t \in Transports, s \in Sids :
        LET d == Decide(c, m, e, t, s) IN
          /\ d.status # "200" => d.effect = "none"
          /\ d.effect = "new" => (~c /\ m = "GET" /\ e = "4" /\ t = "polling" /\ s = "absent")
          /\ (e # "4" /\ ~c) => d.code = 5
          /\ (s \in {"unknown", "closed"} /\ e = "4" /\ ~c) => d.code = 1
          /\ c => d.status = "503"

(***************************************************************************)
(* Part 2: handshakes racing Close                                         *)
(***************************************************************************)
CONSTANTS Hs, Dev     \* handshake processes; deviations

VARIABLES closed, store, hpc, hsid, kpc, snap, closedSocks, nextSid
vars == <<closed, store, hpc, hsid, kpc, snap, closedSocks, nextSid>>

Init == /\ closed = FALSE /\ store = {} /\ hpc = [h \in Hs |-> "start"] /\ hsid = [h \in Hs |-> 0]
        /\ kpc = "start" /\ snap = {} /\ closedSocks = {} /\ nextSid = 1

CheckClosed(h) == /\ hpc[h] = "start"
                  /\ hpc' = [hpc EXCEPT ![h] = IF closed THEN "refused" ELSE "auth"]
                  /\ UNCHANGED <<closed, store, hsid, kpc, snap, closedSocks, nextSid>>
Auth(h)     == /\ hpc[h] = "auth" /\ hpc' = [hpc EXCEPT ![h] = "gensid"]       \* Authenticator callback (may block)
               /\ UNCHANGED <<closed, store, hsid, kpc, snap, closedSocks, nextSid>>
GenSid(h)   == /\ hpc[h] = "gensid"
               /\ hsid' = [hsid EXCEPT ![h] = nextSid] /\ nextSid' = nextSid + 1   \* unique among live sessions
               /\ hpc' = [hpc EXCEPT ![h] = "announce"]
               /\ UNCHANGED <<closed, store, kpc, snap, closedSocks>>
\* newSocket: the application's NewSocketCallback runs (may block) before the session is stored
Announce(h) == /\ hpc[h] = "announce" /\ hpc' = [hpc EXCEPT ![h] = "set"]
               /\ UNCHANGED <<closed, store, hsid, kpc, snap, closedSocks, nextSid>>
StoreSet(h) == /\ hpc[h] = "set"
               /\ store' = store \cup {hsid[h]}
               /\ hpc' = [hpc EXCEPT ![h] = IF "NoRecheck" \in Dev THEN "done" ELSE "recheck"]
               /\ UNCHANGED <<closed, hsid, kpc, snap, closedSocks, nextSid>>
\* after registering: if the server was closed meanwhile, close the new session
Recheck(h)  == /\ hpc[h] = "recheck"
               /\ IF closed THEN /\ store' = store \ {hsid[h]} /\ closedSocks' = closedSocks \cup {hsid[h]}
                            ELSE UNCHANGED <<store, closedSocks>>
               /\ hpc' = [hpc EXCEPT ![h] = "done"]
               /\ UNCHANGED <<closed, hsid, kpc, snap, nextSid>>

SetClosed == /\ kpc = "start" /\ closed' = TRUE /\ kpc' = "snapshot"
             /\ UNCHANGED <<store, hpc, hsid, snap, closedSocks, nextSid>>
Snapshot  == /\ kpc = "snapshot" /\ snap' = store /\ kpc' = "closing"
             /\ UNCHANGED <<closed, store, hpc, hsid, closedSocks, nextSid>>
CloseEach == /\ kpc = "closing"
             /\ IF snap = {} THEN kpc' = "done" /\ UNCHANGED <<store, closedSocks, snap>>
                ELSE \E x \in snap : /\ snap' = snap \ {x} /\ store' = store \ {x}
                                     /\ closedSocks' = closedSocks \cup {x} /\ kpc' = kpc
             /\ UNCHANGED <<closed, hpc, hsid, nextSid>>

Next == \/ \E h \in Hs : CheckClosed(h) \/ Auth(h) \/ GenSid(h) \/ Announce(h) \/ StoreSet(h) \/ Recheck(h)
        \/ SetClosed \/ Snapshot \/ CloseEach
Spec == Init /\ [][Next]_vars

\* once Close has returned and the requests in flight have ended, no session is left
ClosedAdmitsNone ==
    (kpc = "done" /\ \A h \in Hs : hpc[h] \in {"done", "refused"}) => store = {}
\* ids of live sessions are pairwise distinct (by construction of GenSid; checked on the code by the driver)
UniqueSids == \A a, b \in Hs : (a # b /\ hsid[a] # 0 /\ hsid[b] # 0) => hsid[a] # hsid[b]
=============================================================================
