----------------------------- MODULE EioSession -----------------------------
(***************************************************************************)
(* One Engine.IO session during a polling -> websocket upgrade (property   *)
(* C07; the heartbeat part for C14 is in EioHeartbeat.tla).                *)
(*   engine.io/server.go          maybeUpgrade (probe answer, NOOP, UPGRADE)*)
(*   engine.io/server_socket.go   Send (read lock), upgradeTo (write lock: *)
(*                                swap, Discard old, re-send what the old  *)
(*                                poll queue still held, minus NOOPs)      *)
(*   engine.io/client_socket.go   Send (read lock; a polling POST is       *)
(*                                synchronous inside it), tryUpgradeTo,    *)
(*                                finishUpgradeTo (write lock: swap,       *)
(*                                Discard old, UPGRADE as first frame)     *)
(*   transport/polling            poll queue, long poll, client poll loop  *)
(*                                (exits after the poll in flight)         *)
(* Messages are numbered per direction.  "up" = client -> server.          *)
(* Deviations: "NoResend" (upgradeTo forgets the queued packets),          *)
(*             "DropInflightPoll" (the client ignores the poll response    *)
(*             that was in flight when it discarded polling)               *)
(***************************************************************************)
EXTENDS Naturals, Sequences, FiniteSets, TLC

CONSTANTS NUp, NDown, Dev, Fault     \* Fault \in {"none", "candfail"}

VARIABLES
    sTr, cTr,       \* current transport at server / client: "polling" | "websocket"
    sPq,            \* server poll queue (sequence of messages; "noop" possible)
    poll,           \* "none" | "pending"   : a GET waits at the server
    resp,           \* poll response in flight: sequence, or <<"none">> marker handled by respOn
    respOn,
    cLoop,          \* client poll loop: "idle" | "inflight" | "exit"
    cDisc,          \* client discarded polling
    wsUp, wsDown,   \* websocket FIFOs
    cand,           \* candidate: "none" "open" "pinged" "ponged" "committed" "upgraded" "failed"
    nextUp, nextDown,
    dlvUp, dlvDown, \* delivered to the application, in order of delivery
    noopDue         \* the asynchronous NOOP of Discard / probe still to be queued

vars == <<sTr, cTr, sPq, poll, resp, respOn, cLoop, cDisc, wsUp, wsDown, cand, nextUp, nextDown, dlvUp, dlvDown, noopDue>>

Init ==
    /\ sTr = "polling" /\ cTr = "polling" /\ sPq = <<>> /\ poll = "none" /\ resp = <<>> /\ respOn = FALSE
    /\ cLoop = "idle" /\ cDisc = FALSE /\ wsUp = <<>> /\ wsDown = <<>> /\ cand = "none"
    /\ nextUp = 1 /\ nextDown = 1 /\ dlvUp = <<>> /\ dlvDown = <<>> /\ noopDue = 0

\* every item has the same shape (TLC cannot compare numbers with strings)
M(n) == <<"m", n>>
Noop == <<"noop", 0>>
Upgrade == <<"upgrade", 0>>
Msgs(q) == LET d == SelectSeq(q, LAMBDA m : m[1] = "m") IN [i \in 1..Len(d) |-> d[i][2]]

\* the application sends; Send holds the read lock, so it is atomic with respect to a swap
ClientSend ==
    /\ nextUp <= NUp
    /\ IF cTr = "polling" THEN dlvUp' = Append(dlvUp, nextUp) /\ UNCHANGED wsUp     \* synchronous POST
                          ELSE wsUp' = Append(wsUp, M(nextUp)) /\ UNCHANGED dlvUp
    /\ nextUp' = nextUp + 1
    /\ UNCHANGED <<sTr, cTr, sPq, poll, resp, respOn, cLoop, cDisc, wsDown, cand, nextDown, dlvDown, noopDue>>

ServerSend ==
    /\ nextDown <= NDown
    /\ IF sTr = "polling" THEN sPq' = Append(sPq, M(nextDown)) /\ UNCHANGED wsDown
                          ELSE wsDown' = Append(wsDown, M(nextDown)) /\ UNCHANGED sPq
    /\ nextDown' = nextDown + 1
    /\ UNCHANGED <<sTr, cTr, poll, resp, respOn, cLoop, cDisc, wsUp, cand, nextUp, dlvUp, dlvDown, noopDue>>

\* long polling
PollStart == /\ cLoop = "idle" /\ ~cDisc /\ poll = "none" /\ ~respOn /\ sTr = "polling"
             /\ cLoop' = "inflight" /\ poll' = "pending"
             /\ UNCHANGED <<sTr, cTr, sPq, resp, respOn, cDisc, wsUp, wsDown, cand, nextUp, nextDown, dlvUp, dlvDown, noopDue>>
PollRespond == /\ poll = "pending" /\ sPq # <<>>
               /\ resp' = sPq /\ respOn' = TRUE /\ sPq' = <<>> /\ poll' = "none"
               /\ UNCHANGED <<sTr, cTr, cLoop, cDisc, wsUp, wsDown, cand, nextUp, nextDown, dlvUp, dlvDown, noopDue>>
PollRecv == /\ respOn
            /\ dlvDown' = IF cDisc /\ "DropInflightPoll" \in Dev THEN dlvDown ELSE dlvDown \o Msgs(resp)
            /\ respOn' = FALSE /\ resp' = <<>>
            /\ cLoop' = IF cDisc THEN "exit" ELSE "idle"
            /\ UNCHANGED <<sTr, cTr, sPq, poll, cDisc, wsUp, wsDown, cand, nextUp, nextDown, dlvUp, noopDue>>
\* a NOOP queued asynchronously (go t.Send(noop))
NoopLand == /\ noopDue > 0 /\ noopDue' = noopDue - 1
            /\ sPq' = Append(sPq, Noop)
            /\ UNCHANGED <<sTr, cTr, poll, resp, respOn, cLoop, cDisc, wsUp, wsDown, cand, nextUp, nextDown, dlvUp, dlvDown>>

\* upgrade
CandOpen == /\ cand = "none" /\ cand' = "open"
            /\ UNCHANGED <<sTr, cTr, sPq, poll, resp, respOn, cLoop, cDisc, wsUp, wsDown, nextUp, nextDown, dlvUp, dlvDown, noopDue>>
ProbePing == /\ cand = "open" /\ cand' = "pinged"
             /\ UNCHANGED <<sTr, cTr, sPq, poll, resp, respOn, cLoop, cDisc, wsUp, wsDown, nextUp, nextDown, dlvUp, dlvDown, noopDue>>
\* server: PONG probe on the candidate + NOOP to force a poll cycle
ProbePong == /\ cand = "pinged" /\ cand' = "ponged" /\ noopDue' = noopDue + 1
             /\ UNCHANGED <<sTr, cTr, sPq, poll, resp, respOn, cLoop, cDisc, wsUp, wsDown, nextUp, nextDown, dlvUp, dlvDown>>
\* the candidate dies before the client's commit point: nothing changes for the session
CandFail == /\ Fault = "candfail" /\ cand \in {"open", "pinged", "ponged"} /\ cand' = "failed"
            /\ UNCHANGED <<sTr, cTr, sPq, poll, resp, respOn, cLoop, cDisc, wsUp, wsDown, nextUp, nextDown, dlvUp, dlvDown, noopDue>>
\* client: PONG probe received -> finishUpgradeTo under the write lock
ClientSwap == /\ cand = "ponged" /\ cand' = "committed"
              /\ cTr' = "websocket" /\ cDisc' = TRUE
              /\ cLoop' = IF cLoop = "idle" THEN "exit" ELSE cLoop
              /\ wsUp' = Append(wsUp, Upgrade)
              /\ UNCHANGED <<sTr, sPq, poll, resp, respOn, wsDown, nextUp, nextDown, dlvUp, dlvDown, noopDue>>
\* server: UPGRADE received on the candidate -> upgradeTo under the write lock
ServerSwap == /\ wsUp # <<>> /\ Head(wsUp) = Upgrade
              /\ wsUp' = Tail(wsUp) /\ cand' = "upgraded"
              /\ sTr' = "websocket" /\ noopDue' = noopDue + 1             \* Discard: go Send(noop)
              /\ wsDown' = IF "NoResend" \in Dev THEN wsDown ELSE wsDown \o SelectSeq(sPq, LAMBDA m : m[1] = "m")   \* re-send what was queued
              /\ sPq' = <<>>
              /\ UNCHANGED <<cTr, poll, resp, respOn, cLoop, cDisc, nextUp, nextDown, dlvUp, dlvDown>>
WsUp == /\ wsUp # <<>> /\ Head(wsUp) # Upgrade /\ sTr = "websocket"
        /\ dlvUp' = Append(dlvUp, Head(wsUp)[2]) /\ wsUp' = Tail(wsUp)
        /\ UNCHANGED <<sTr, cTr, sPq, poll, resp, respOn, cLoop, cDisc, wsDown, cand, nextUp, nextDown, dlvDown, noopDue>>
WsDown == /\ wsDown # <<>> /\ cTr = "websocket"
          /\ dlvDown' = Append(dlvDown, Head(wsDown)[2]) /\ wsDown' = Tail(wsDown)
          /\ UNCHANGED <<sTr, cTr, sPq, poll, resp, respOn, cLoop, cDisc, wsUp, cand, nextUp, nextDown, dlvUp, noopDue>>

Next == ClientSend \/ ServerSend \/ PollStart \/ PollRespond \/ PollRecv \/ NoopLand
        \/ CandOpen \/ ProbePing \/ ProbePong \/ CandFail \/ ClientSwap \/ ServerSwap \/ WsUp \/ WsDown

Spec == Init /\ [][Next]_vars
FairSpec == Spec /\ WF_vars(Next)

(***************************************************************************)
(* Properties (C07)                                                        *)
(***************************************************************************)
NoDup(q) == \A i, j \in 1..Len(q) : i # j => q[i] # q[j]
AtMostOnce == NoDup(dlvUp) /\ NoDup(dlvDown)
Range(q) == {q[i] : i \in 1..Len(q)}

\* when nothing can move any more, everything sent has been delivered
NothingLost == (~ENABLED Next) => (Range(dlvUp) = 1..(nextUp - 1) /\ Range(dlvDown) = 1..(nextDown - 1))

\* a candidate that failed before the commit point leaves the session on its original transport
FailedUpgradeKeepsOld == cand = "failed" => (sTr = "polling" /\ cTr = "polling" /\ ~cDisc)

\* both sides end up on the same transport
Agree == (~ENABLED Next) => sTr = cTr
=============================================================================
