----------------------------- MODULE EioSession -----------------------------
(***************************************************************************)
(* One Engine.IO session during a polling -> websocket upgrade (property   *)
(* C07; the heartbeat part for C14 is in EioHeartbeat.tla).                *)
(*   engine.io/server.go          maybeUpgrade (probe answer, NOOP, UPGRADE)*)
(*   engine.io/server_socket.go   Send (read lock), upgradeTo (write lock: *)
(*                                swap, Discard old, re-send what the old  *)
(*                                poll queue still held, minus NOOPs)      *)
(*   engine.io/client_socket.go   Send (read lock; a polling POST is       *)
(*                                synchronous inside it), tryUpgradeTo,    *)
(*                                finishUpgradeTo (write lock: swap,       *)
(*                                Discard old, UPGRADE as first frame)     *)
(*   transport/polling            poll queue, long poll, client poll loop  *)
(*                                (exits after the poll in flight)         *)
(* Messages are numbered per direction.  "up" = client -> server.          *)
(* Heartbeats travel in the same streams (server pingPong -> Send(PING);   *)
(* client handlePacket -> Send(PONG)); a PING may therefore sit in the old *)
(* poll queue when the server swaps.                                       *)
(* Deviations: "NoResend" (upgradeTo forgets the queued packets),          *)
(*             "ResendMsgsOnly" (upgradeTo re-sends MESSAGE packets only:  *)
(*             a parked PING is dropped),                                  *)
(*             "DropInflightPoll" (the client ignores the poll response    *)
(*             that was in flight when it discarded polling)               *)
(***************************************************************************)
EXTENDS Naturals, Sequences, FiniteSets, TLC

CONSTANTS NUp, NDown, NPing, Dev, Fault     \* Fault \in {"none", "candfail"}

VARIABLES
    sTr, cTr,       \* current transport at server / client: "polling" | "websocket"
    sPq,            \* server poll queue (sequence of messages; "noop" possible)
    poll,           \* "none" | "pending"   : a GET waits at the server
    resp,           \* poll response in flight: sequence, or <<"none">> marker handled by respOn
    respOn,
    cLoop,          \* client poll loop: "idle" | "inflight" | "exit"
    cDisc,          \* client discarded polling
    wsUp, wsDown,   \* websocket FIFOs
    cand,           \* candidate: "none" "open" "pinged" "ponged" "committed" "upgraded" "failed"
    nextUp, nextDown,
    dlvUp, dlvDown, \* delivered to the application, in order of delivery
    noopDue,        \* the asynchronous NOOP of Discard / probe still to be queued
    nextPing,       \* next heartbeat number of the server's ping loop
    pingGot,        \* PINGs the client has handled
    pongDue,        \* PINGs handled whose PONG the client has not sent yet
    pongGot         \* PONGs the server has received

vars == <<sTr, cTr, sPq, poll, resp, respOn, cLoop, cDisc, wsUp, wsDown, cand, nextUp, nextDown, dlvUp, dlvDown, noopDue, nextPing, pingGot, pongDue, pongGot>>

Init ==
    /\ sTr = "polling" /\ cTr = "polling" /\ sPq = <<>> /\ poll = "none" /\ resp = <<>> /\ respOn = FALSE
    /\ cLoop = "idle" /\ cDisc = FALSE /\ wsUp = <<>> /\ wsDown = <<>> /\ cand = "none"
    /\ nextUp = 1 /\ nextDown = 1 /\ dlvUp = <<>> /\ dlvDown = <<>> /\ noopDue = 0
    /\ nextPing = 1 /\ pingGot = {} /\ pongDue = {} /\ pongGot = {}

\* every item has the same shape (TLC cannot compare numbers with strings)
M(n) == <<"m", n>>
Noop == <<"noop", 0>>
Upgrade == <<"upgrade", 0>>
Ping(k) == <<"ping", k>>
Pong(k) == <<"pong", k>>
Pings(q) == {q[i][2] : i \in {j \in 1..Len(q) : q[j][1] = "ping"}}
hb == <<nextPing, pingGot, pongDue, pongGot>>
Msgs(q) == LET d == SelectSeq(q, LAMBDA m : m[1] = "m") IN [i \in 1..Len(d) |-> d[i][2]]

\* the application sends; Send holds the read lock, so it is atomic with respect to a swap
ClientSend ==
    /\ nextUp <= NUp
    /\ IF cTr = "polling" THEN dlvUp' = Append(dlvUp, nextUp) /\ UNCHANGED wsUp     \* synchronous POST
                          ELSE wsUp' = Append(wsUp, M(nextUp)) /\ UNCHANGED dlvUp
    /\ nextUp' = nextUp + 1
    /\ UNCHANGED <<sTr, cTr, sPq, poll, resp, respOn, cLoop, cDisc, wsDown, cand, nextDown, dlvDown, noopDue, hb>>

ServerSend ==
    /\ nextDown <= NDown
    /\ IF sTr = "polling" THEN sPq' = Append(sPq, M(nextDown)) /\ UNCHANGED wsDown
                          ELSE wsDown' = Append(wsDown, M(nextDown)) /\ UNCHANGED sPq
    /\ nextDown' = nextDown + 1
    /\ UNCHANGED <<sTr, cTr, poll, resp, respOn, cLoop, cDisc, wsUp, cand, nextUp, dlvUp, dlvDown, noopDue, hb>>

\* long polling
PollStart == /\ cLoop = "idle" /\ ~cDisc /\ poll = "none" /\ ~respOn /\ sTr = "polling"
             /\ cLoop' = "inflight" /\ poll' = "pending"
             /\ UNCHANGED <<sTr, cTr, sPq, resp, respOn, cDisc, wsUp, wsDown, cand, nextUp, nextDown, dlvUp, dlvDown, noopDue, hb>>
PollRespond == /\ poll = "pending" /\ sPq # <<>>
               /\ resp' = sPq /\ respOn' = TRUE /\ sPq' = <<>> /\ poll' = "none"
               /\ UNCHANGED <<sTr, cTr, cLoop, cDisc, wsUp, wsDown, cand, nextUp, nextDown, dlvUp, dlvDown, noopDue, hb>>
PollRecv == /\ respOn
            /\ dlvDown' = IF cDisc /\ "DropInflightPoll" \in Dev THEN dlvDown ELSE dlvDown \o Msgs(resp)
            /\ respOn' = FALSE /\ resp' = <<>>
            /\ cLoop' = IF cDisc THEN "exit" ELSE "idle"
            /\ LET ps == IF cDisc /\ "DropInflightPoll" \in Dev THEN {} ELSE Pings(resp) IN
                 pingGot' = pingGot \cup ps /\ pongDue' = pongDue \cup ps
            /\ UNCHANGED <<sTr, cTr, sPq, poll, cDisc, wsUp, wsDown, cand, nextUp, nextDown, dlvUp, noopDue, nextPing, pongGot>>
\* a NOOP queued asynchronously (go t.Send(noop))
NoopLand == /\ noopDue > 0 /\ noopDue' = noopDue - 1
            /\ sPq' = Append(sPq, Noop)
            /\ UNCHANGED <<sTr, cTr, poll, resp, respOn, cLoop, cDisc, wsUp, wsDown, cand, nextUp, nextDown, dlvUp, dlvDown, hb>>

\* upgrade
CandOpen == /\ cand = "none" /\ cand' = "open"
            /\ UNCHANGED <<sTr, cTr, sPq, poll, resp, respOn, cLoop, cDisc, wsUp, wsDown, nextUp, nextDown, dlvUp, dlvDown, noopDue, hb>>
ProbePing == /\ cand = "open" /\ cand' = "pinged"
             /\ UNCHANGED <<sTr, cTr, sPq, poll, resp, respOn, cLoop, cDisc, wsUp, wsDown, nextUp, nextDown, dlvUp, dlvDown, noopDue, hb>>
\* server: PONG probe on the candidate + NOOP to force a poll cycle
ProbePong == /\ cand = "pinged" /\ cand' = "ponged" /\ noopDue' = noopDue + 1
             /\ UNCHANGED <<sTr, cTr, sPq, poll, resp, respOn, cLoop, cDisc, wsUp, wsDown, nextUp, nextDown, dlvUp, dlvDown, hb>>
\* the candidate dies before the client's commit point: nothing changes for the session
CandFail == /\ Fault = "candfail" /\ cand \in {"open", "pinged", "ponged"} /\ cand' = "failed"
            /\ UNCHANGED <<sTr, cTr, sPq, poll, resp, respOn, cLoop, cDisc, wsUp, wsDown, nextUp, nextDown, dlvUp, dlvDown, noopDue, hb>>
\* client: PONG probe received -> finishUpgradeTo under the write lock
ClientSwap == /\ cand = "ponged" /\ cand' = "committed"
              /\ cTr' = "websocket" /\ cDisc' = TRUE
              /\ cLoop' = IF cLoop = "idle" THEN "exit" ELSE cLoop
              /\ wsUp' = Append(wsUp, Upgrade)
              /\ UNCHANGED <<sTr, sPq, poll, resp, respOn, wsDown, nextUp, nextDown, dlvUp, dlvDown, noopDue, hb>>
\* server: UPGRADE received on the candidate -> upgradeTo under the write lock
ServerSwap == /\ wsUp # <<>> /\ Head(wsUp) = Upgrade
              /\ wsUp' = Tail(wsUp) /\ cand' = "upgraded"
              /\ sTr' = "websocket" /\ noopDue' = noopDue + 1             \* Discard: go Send(noop)
              /\ wsDown' = IF "NoResend" \in Dev THEN wsDown ELSE IF "ResendMsgsOnly" \in Dev THEN wsDown \o SelectSeq(sPq, LAMBDA m : m[1] = "m")
                            ELSE wsDown \o SelectSeq(sPq, LAMBDA m : m[1] # "noop")   \* re-send what was queued, minus NOOPs
              /\ sPq' = <<>>
              /\ UNCHANGED <<cTr, poll, resp, respOn, cLoop, cDisc, nextUp, nextDown, dlvUp, dlvDown, hb>>
WsUp == /\ wsUp # <<>> /\ Head(wsUp) # Upgrade /\ sTr = "websocket"
        /\ wsUp' = Tail(wsUp)
        /\ IF Head(wsUp)[1] = "pong" THEN pongGot' = pongGot \cup {Head(wsUp)[2]} /\ UNCHANGED dlvUp
                                     ELSE dlvUp' = Append(dlvUp, Head(wsUp)[2]) /\ UNCHANGED pongGot
        /\ UNCHANGED <<sTr, cTr, sPq, poll, resp, respOn, cLoop, cDisc, wsDown, cand, nextUp, nextDown, dlvDown, noopDue, nextPing, pingGot, pongDue>>
WsDown == /\ wsDown # <<>> /\ cTr = "websocket"
          /\ wsDown' = Tail(wsDown)
          /\ IF Head(wsDown)[1] = "ping"
                THEN /\ pingGot' = pingGot \cup {Head(wsDown)[2]} /\ pongDue' = pongDue \cup {Head(wsDown)[2]}
                     /\ UNCHANGED dlvDown
                ELSE dlvDown' = Append(dlvDown, Head(wsDown)[2]) /\ UNCHANGED <<pingGot, pongDue>>
          /\ UNCHANGED <<sTr, cTr, sPq, poll, resp, respOn, cLoop, cDisc, wsUp, cand, nextUp, nextDown, dlvUp, noopDue, nextPing, pongGot>>

\* heartbeat: the server's ping loop sends through Send like any packet; the client answers from
\* handlePacket through its own Send (read lock: atomic with respect to its swap)
ServerPing ==
    /\ nextPing <= NPing
    /\ IF sTr = "polling" THEN sPq' = Append(sPq, Ping(nextPing)) /\ UNCHANGED wsDown
                          ELSE wsDown' = Append(wsDown, Ping(nextPing)) /\ UNCHANGED sPq
    /\ nextPing' = nextPing + 1
    /\ UNCHANGED <<sTr, cTr, poll, resp, respOn, cLoop, cDisc, wsUp, cand, nextUp, nextDown, dlvUp, dlvDown, noopDue, pingGot, pongDue, pongGot>>
ClientPong(k) ==
    /\ k \in pongDue /\ pongDue' = pongDue \ {k}
    /\ IF cTr = "polling" THEN pongGot' = pongGot \cup {k} /\ UNCHANGED wsUp     \* synchronous POST
                          ELSE wsUp' = Append(wsUp, Pong(k)) /\ UNCHANGED pongGot
    /\ UNCHANGED <<sTr, cTr, sPq, poll, resp, respOn, cLoop, cDisc, wsDown, cand, nextUp, nextDown, dlvUp, dlvDown, noopDue, nextPing, pingGot>>

Next == ClientSend \/ ServerSend \/ PollStart \/ PollRespond \/ PollRecv \/ NoopLand
        \/ ServerPing \/ (\E k \in 1..NPing : ClientPong(k))
        \/ CandOpen \/ ProbePing \/ ProbePong \/ CandFail \/ ClientSwap \/ ServerSwap \/ WsUp \/ WsDown

Spec == Init /\ [][Next]_vars
FairSpec == Spec /\ WF_vars(Next)

(***************************************************************************)
(* Properties (C07)                                                        *)
(***************************************************************************)
NoDup(q) == \A i, j \in 1..Len(q) : i # j => q[i] # q[j]
AtMostOnce == NoDup(dlvUp) /\ NoDup(dlvDown)
Range(q) == {q[i] : i \in 1..Len(q)}

\* when nothing can move any more, everything sent has been delivered
NothingLost == (~ENABLED Next) => (Range(dlvUp) = 1..(nextUp - 1) /\ Range(dlvDown) = 1..(nextDown - 1))

\* every heartbeat the ping loop sent is answered: none is dropped by a swap (C14 through the upgrade)
HeartbeatNotLost == (~ENABLED Next) => (pingGot = 1..(nextPing - 1) /\ pongGot = 1..(nextPing - 1))
HeartbeatOnlySent == pingGot \subseteq 1..(nextPing - 1) /\ pongGot \subseteq pingGot /\ pongDue \subseteq pingGot

\* a candidate that failed before the commit point leaves the session on its original transport
FailedUpgradeKeepsOld == cand = "failed" => (sTr = "polling" /\ cTr = "polling" /\ ~cDisc)

\* both sides end up on the same transport
Agree == (~ENABLED Next) => sTr = cTr
=============================================================================
