------------------------------ MODULE Recovery ------------------------------
(***************************************************************************)
(* Connection state recovery (property C08):                               *)
(*   adapter/adapter_session_aware.go  Broadcast (log append under a.mu,   *)
(*        then delivery), PersistSession, RestoreSession, cleaner          *)
(*   server_socket.go  onClose (persist on recoverable reasons),           *)
(*        newServerSocket(previousSession): same id, rooms re-joined,      *)
(*        missed packets sent                                              *)
(*   namespace.go  add: RestoreSession ... (middlewares) ... doConnect     *)
(*        (only doConnect makes the socket reachable by broadcasts)        *)
(* Time is a tick counter; W is the window (maxDisconnectionDuration).     *)
(* Deviations (constant Dev):                                              *)
(*   "CleanNewestFresh"  the clean-up pass removes the newest entry that   *)
(*        has NOT expired, one per pass (the code before fix F4)           *)
(*   "AttachLater"  restoring and becoming reachable are two steps, as in  *)
(*        the code (namespace.add): a broadcast in between is neither in   *)
(*        the missed list nor delivered (recorded finding K6)              *)
(***************************************************************************)
EXTENDS Naturals, Sequences, FiniteSets, TLC

CONSTANTS Clients, RoomsC, W, MaxLog, MaxTime, MaxSid, Dev

VARIABLES
    now,
    log,        \* sequence of [id, T, E, at]
    nextId,
    sessions,   \* pid -> [sid, rooms, at]  (partial function)
    conn,       \* client -> "up" | "down" | "restoring"
    sid, pid,   \* client -> current ids (naturals; 0 = none)
    rooms,      \* client -> rooms joined (besides its own)
    offset,     \* client -> id of the last packet received (0 = none)
    rcv,        \* client -> ids received, in order      (since its session began)
    due,        \* client -> ids addressed to it, in order (history; since its session began)
    recovered,  \* client -> verdict of the last connect
    nextSid

vars == <<now, log, nextId, sessions, conn, sid, pid, rooms, offset, rcv, due, recovered, nextSid>>

Init ==
    /\ now = 0 /\ log = <<>> /\ nextId = 1 /\ sessions = <<>> /\ nextSid = 1
    /\ conn = [c \in Clients |-> "down"] /\ sid = [c \in Clients |-> 0] /\ pid = [c \in Clients |-> 0]
    /\ rooms = [c \in Clients |-> {}] /\ offset = [c \in Clients |-> 0]
    /\ rcv = [c \in Clients |-> <<>>] /\ due = [c \in Clients |-> <<>>]
    /\ recovered = [c \in Clients |-> FALSE]

Match(R, T, E) == (T = {} \/ R \cap T # {}) /\ R \cap E = {}      \* shouldIncludePacket / Recipients
Expired(at) == now > at + W

\* rooms a client is addressed by: live membership while up, persisted rooms while away
AddrRooms(c) == IF conn[c] = "up" THEN rooms[c]
                ELSE IF pid[c] \in DOMAIN sessions THEN sessions[pid[c]].rooms ELSE rooms[c]
HasSession(c) == conn[c] = "up" \/ (pid[c] # 0 /\ pid[c] \in DOMAIN sessions)

\* a fresh connection (no pid, or recovery refused): new ids, nothing owed
FreshConnect(c) ==
    /\ conn[c] = "down" /\ pid[c] = 0
    /\ conn' = [conn EXCEPT ![c] = "up"]
    /\ sid' = [sid EXCEPT ![c] = nextSid] /\ pid' = [pid EXCEPT ![c] = nextSid] /\ nextSid' = nextSid + 1
    /\ rooms' = [rooms EXCEPT ![c] = {}] /\ offset' = [offset EXCEPT ![c] = 0]
    /\ rcv' = [rcv EXCEPT ![c] = <<>>] /\ due' = [due EXCEPT ![c] = <<>>]
    /\ recovered' = [recovered EXCEPT ![c] = FALSE]
    /\ UNCHANGED <<now, log, nextId, sessions>>

Join(c, r) == /\ conn[c] = "up" /\ rooms' = [rooms EXCEPT ![c] = @ \cup {r}]
              /\ UNCHANGED <<now, log, nextId, sessions, conn, sid, pid, offset, rcv, due, recovered, nextSid>>

\* Broadcast: the entry is logged first, then delivered to the sockets that match now
Broadcast(T, E) ==
    /\ Len(log) < MaxLog
    /\ log' = Append(log, [id |-> nextId, T |-> T, E |-> E, at |-> now])
    /\ nextId' = nextId + 1
    /\ rcv' = [c \in Clients |-> IF conn[c] = "up" /\ Match(rooms[c], T, E) THEN Append(rcv[c], nextId) ELSE rcv[c]]
    /\ offset' = [c \in Clients |-> IF conn[c] = "up" /\ Match(rooms[c], T, E) THEN nextId ELSE offset[c]]
    /\ due' = [c \in Clients |-> IF HasSession(c) /\ Match(AddrRooms(c), T, E) THEN Append(due[c], nextId) ELSE due[c]]
    /\ UNCHANGED <<now, sessions, conn, sid, pid, rooms, recovered, nextSid>>

\* the connection drops with a recoverable reason: the session is persisted
Disconnect(c) ==
    /\ conn[c] = "up"
    /\ sessions' = [p \in DOMAIN sessions \cup {pid[c]} |->
                      IF p = pid[c] THEN [sid |-> sid[c], rooms |-> rooms[c], at |-> now] ELSE sessions[p]]
    /\ conn' = [conn EXCEPT ![c] = "down"]
    /\ UNCHANGED <<now, log, nextId, sid, pid, rooms, offset, rcv, due, recovered, nextSid>>

Tick == now < MaxTime /\ now' = now + 1
        /\ UNCHANGED <<log, nextId, sessions, conn, sid, pid, rooms, offset, rcv, due, recovered, nextSid>>

\* one pass of the cleaner goroutine
CleanPass ==
    /\ sessions' = [p \in {q \in DOMAIN sessions : ~Expired(sessions[q].at)} |-> sessions[p]]
    /\ IF "CleanNewestFresh" \in Dev
         THEN LET fresh == {i \in 1..Len(log) : ~Expired(log[i].at)} IN
                IF fresh = {} THEN UNCHANGED log
                ELSE LET k == CHOOSE i \in fresh : \A j \in fresh : j <= i IN
                       log' = SubSeq(log, 1, k - 1) \o SubSeq(log, k + 1, Len(log))
         ELSE log' = SelectSeq(log, LAMBDA e : ~Expired(e.at))
    /\ UNCHANGED <<now, nextId, conn, sid, pid, rooms, offset, rcv, due, recovered, nextSid>>

IndexOf(id) == IF \E i \in 1..Len(log) : log[i].id = id THEN CHOOSE i \in 1..Len(log) : log[i].id = id ELSE 0

\* RestoreSession(pid, offset): verdict and missed packets, in one critical section
Restorable(c) ==
    /\ pid[c] \in DOMAIN sessions /\ ~Expired(sessions[pid[c]].at) /\ IndexOf(offset[c]) # 0
Missed(c) == LET s == sessions[pid[c]]  k == IndexOf(offset[c]) IN
             SelectSeq(SubSeq(log, k + 1, Len(log)), LAMBDA e : Match(s.rooms, e.T, e.E))
Ids(q) == [i \in 1..Len(q) |-> q[i].id]

Restore(c) ==
    /\ conn[c] = "down" /\ pid[c] # 0
    /\ IF Restorable(c)
         THEN /\ rcv' = [rcv EXCEPT ![c] = @ \o Ids(Missed(c))]
              /\ offset' = [offset EXCEPT ![c] = IF Missed(c) = <<>> THEN @ ELSE Missed(c)[Len(Missed(c))].id]
              /\ rooms' = [rooms EXCEPT ![c] = sessions[pid[c]].rooms]       \* same id, rooms re-joined
              /\ recovered' = [recovered EXCEPT ![c] = TRUE]
              /\ conn' = [conn EXCEPT ![c] = IF "AttachLater" \in Dev THEN "restoring" ELSE "up"]
              /\ UNCHANGED <<sid, pid, due, nextSid>>
         ELSE \* unknown / expired session or unknown offset: a fresh session, marked not recovered
              /\ conn' = [conn EXCEPT ![c] = "up"]
              /\ sid' = [sid EXCEPT ![c] = nextSid] /\ pid' = [pid EXCEPT ![c] = nextSid] /\ nextSid' = nextSid + 1
              /\ rooms' = [rooms EXCEPT ![c] = {}] /\ offset' = [offset EXCEPT ![c] = 0]
              /\ rcv' = [rcv EXCEPT ![c] = <<>>] /\ due' = [due EXCEPT ![c] = <<>>]
              /\ recovered' = [recovered EXCEPT ![c] = FALSE]
    /\ UNCHANGED <<now, log, nextId, sessions>>

\* doConnect: only now do broadcasts reach the restored socket
Attach(c) == /\ conn[c] = "restoring" /\ conn' = [conn EXCEPT ![c] = "up"]
             /\ UNCHANGED <<now, log, nextId, sessions, sid, pid, rooms, offset, rcv, due, recovered, nextSid>>

Next ==
    \/ \E c \in Clients : FreshConnect(c) \/ Disconnect(c) \/ Restore(c) \/ Attach(c) \/ (\E r \in RoomsC : Join(c, r))
    \/ \E T \in SUBSET RoomsC, E \in SUBSET RoomsC : Broadcast(T, E)
    \/ Tick \/ CleanPass

Spec == Init /\ [][Next]_vars

\* bound for model checking: number of sessions ever created
Bound == nextSid <= MaxSid

(***************************************************************************)
(* Properties (C08)                                                        *)
(***************************************************************************)
\* a connected client has received everything that was addressed to it since its session began
\* (no gap), in emission order and nothing twice (ids grow with emission order).  `due` counts a
\* packet for a client by its live rooms while it is up and by its persisted rooms while it is
\* away; a packet emitted while the client was up but joined the matching room only later may be
\* replayed as well (the reference algorithm filters the log by the rooms at disconnect time) -
\* that is neither a gap nor a duplicate and is accepted.
Range(q) == {q[i] : i \in 1..Len(q)}
Increasing(q) == \A i \in 1..(Len(q) - 1) : q[i] < q[i + 1]
NoGapNoDup == \A c \in Clients : conn[c] = "up" => Increasing(rcv[c]) /\ Range(due[c]) \subseteq Range(rcv[c])

\* a fresh session after a refused recovery is marked as such (and owes nothing)
FreshIsMarked == \A c \in Clients : (conn[c] = "up" /\ ~recovered[c]) => Range(due[c]) \subseteq Range(rcv[c])

\* recovery keeps the identity
SameIdentity == [][\A c \in Clients : (conn[c] = "down" /\ conn'[c] # "down" /\ recovered'[c])
                                        => (sid'[c] = sid[c] /\ pid'[c] = pid[c] /\ rooms'[c] = sessions[pid[c]].rooms)]_vars

\* a log entry is never dropped before it has expired
CleanOnlyExpired == [][\A i \in 1..Len(log) : (\A j \in 1..Len(log') : log'[j].id # log[i].id) => Expired(log[i].at)]_vars
=============================================================================
