---------------------------- MODULE HandlersOps ----------------------------
(***************************************************************************)
(* Reference semantics of the handler registries over plain sequences of   *)
(* handler identities; shared by Handlers.tla (design) and                 *)
(* HandlersTrace.tla (binding to store.go).                                *)
(***************************************************************************)
EXTENDS Naturals, Sequences

RemoveH(seq, H) == SelectSeq(seq, LAMBDA x : x \notin H)      \* Off(h1..hn)
RemoveOne(seq, h) == SelectSeq(seq, LAMBDA x : x # h)         \* offSubEvent
FireList(subs, on, once) == subs \o on \o once                \* getAll
Range(s) == {s[i] : i \in 1..Len(s)}

=============================================================================
