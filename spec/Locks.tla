------------------------------- MODULE Locks -------------------------------
(***************************************************************************)
(* Deadlock freedom of the library's locking (property C16, the clauses    *)
(* "no deadlock" and "no mutex left held").                                *)
(*                                                                         *)
(* The lock programs are not written by hand: they are the sequences of    *)
(* Lock / RLock / Unlock / RUnlock calls that goroutines of the real       *)
(* library executed while a randomly generated concurrent program drove    *)
(* its public API (hooks in internal/sync under the build tag verif; one   *)
(* program = one stretch of a goroutine from its first lock to the moment  *)
(* it holds none, kept only if it ever held two locks at once or locked    *)
(* one mutex twice).  progs.json lists them: [scen, ops], ops a sequence   *)
(* of [op, m] with op in {"L","U","RL","RU"} and m the mutex instance.     *)
(*                                                                         *)
(* TLC runs every pair (K = 2) or triple (K = 3) of programs of one        *)
(* scenario - a program also against a second copy of itself - through all *)
(* interleavings under the semantics of sync.Mutex / sync.RWMutex,         *)
(* including the writer preference of RWMutex (a pending Lock blocks new   *)
(* RLocks, which is what makes recursive read locking deadlock).  The run  *)
(* that produced the programs saw one interleaving; TLC sees all.          *)
(***************************************************************************)
EXTENDS Naturals, Sequences, FiniteSets, TLC, Json

CONSTANT K                      \* how many programs run together (2 or 3)
Progs == JsonDeserialize("progs.json")
N == Len(Progs)
Procs == 1..K
MutexesOf(i) == {Progs[i].ops[j].m : j \in 1..Len(Progs[i].ops)}

VARIABLES chosen,   \* Procs -> program index (0: this slot stays idle)
          pc,       \* Procs -> position in its program
          w,        \* mutex -> process holding it for writing, or 0
          r,        \* mutex -> [process -> number of read locks it holds]
          pend      \* set of <<process, mutex>>: a Lock call that has announced itself
vars == <<chosen, pc, w, r, pend>>

Prog(p) == Progs[chosen[p]].ops
Done(p) == chosen[p] = 0 \/ pc[p] > Len(Prog(p))
Cur(p) == Prog(p)[pc[p]]

\* combinations, each once: non-decreasing indices, all of one scenario
Init == /\ chosen \in {c \in [Procs -> 0..N] :
                          /\ c[1] # 0
                          /\ \A p \in 1..(K - 1) : (c[p + 1] = 0 \/ c[p] <= c[p + 1])
                          /\ \A p, q \in Procs : (c[p] # 0 /\ c[q] # 0) => Progs[c[p]].scen = Progs[c[q]].scen
                          /\ Cardinality({p \in Procs : c[p] # 0}) >= 2
                          \* programs that share no mutex cannot wait for each other
                          /\ \A p \in Procs : c[p] # 0 =>
                                \E q \in Procs \ {p} : c[q] # 0 /\ MutexesOf(c[p]) \cap MutexesOf(c[q]) # {}}
        /\ pc = [p \in Procs |-> 1]
        \* only the mutexes of the chosen programs are part of the state
        /\ w = [m \in UNION {MutexesOf(chosen[p]) : p \in {q \in Procs : chosen[q] # 0}} |-> 0]
        /\ r = [m \in UNION {MutexesOf(chosen[p]) : p \in {q \in Procs : chosen[q] # 0}} |-> [p \in Procs |-> 0]]
        /\ pend = {}

NoReaders(m) == \A p \in Procs : r[m][p] = 0
PendingOn(m) == \E p \in Procs : <<p, m>> \in pend

\* Lock: first the call announces itself (from then on new readers wait), then it acquires
Announce(p) == /\ ~Done(p) /\ Cur(p).op = "L" /\ <<p, Cur(p).m>> \notin pend
               /\ pend' = pend \cup {<<p, Cur(p).m>>}
               /\ UNCHANGED <<chosen, pc, w, r>>
AcquireW(p) == /\ ~Done(p) /\ Cur(p).op = "L" /\ <<p, Cur(p).m>> \in pend
               /\ w[Cur(p).m] = 0 /\ NoReaders(Cur(p).m)
               /\ w' = [w EXCEPT ![Cur(p).m] = p]
               /\ pend' = pend \ {<<p, Cur(p).m>>}
               /\ pc' = [pc EXCEPT ![p] = @ + 1]
               /\ UNCHANGED <<chosen, r>>
AcquireR(p) == /\ ~Done(p) /\ Cur(p).op = "RL"
               /\ w[Cur(p).m] = 0 /\ ~PendingOn(Cur(p).m)
               /\ r' = [r EXCEPT ![Cur(p).m][p] = @ + 1]
               /\ pc' = [pc EXCEPT ![p] = @ + 1]
               /\ UNCHANGED <<chosen, w, pend>>
ReleaseW(p) == /\ ~Done(p) /\ Cur(p).op = "U"
               /\ w' = [w EXCEPT ![Cur(p).m] = 0]
               /\ pc' = [pc EXCEPT ![p] = @ + 1]
               /\ UNCHANGED <<chosen, r, pend>>
ReleaseR(p) == /\ ~Done(p) /\ Cur(p).op = "RU"
               /\ r' = [r EXCEPT ![Cur(p).m][p] = IF @ > 0 THEN @ - 1 ELSE 0]
               /\ pc' = [pc EXCEPT ![p] = @ + 1]
               /\ UNCHANGED <<chosen, w, pend>>

Next == \E p \in Procs : Announce(p) \/ AcquireW(p) \/ AcquireR(p) \/ ReleaseW(p) \/ ReleaseR(p)
Spec == Init /\ [][Next]_vars

AllDone == \A p \in Procs : Done(p)
\* somebody can always move until everybody is through
NoDeadlock == AllDone \/ ENABLED Next
\* a program that ends holds nothing (the programs are cut where the goroutine held no lock: sanity of the extraction)
NothingHeld == AllDone => (\A m \in DOMAIN w : w[m] = 0 /\ NoReaders(m))
=============================================================================
