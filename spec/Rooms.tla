-------------------------------- MODULE Rooms --------------------------------
(***************************************************************************)
(* Room membership and broadcast targets (property C04):                   *)
(*   adapter/adapter_memory.go   AddAll / Delete / DeleteAll under a.mu,   *)
(*                               apply(): except set computed once, target *)
(*                               rooms iterated, the mutex RELEASED around *)
(*                               every callback, per-call dedup set        *)
(*   server_socket.go            Join / Leave / onClose (leaveAll, remove  *)
(*                               from the namespace's socket store)        *)
(* Every connected socket sits in the room named after its id.             *)
(***************************************************************************)
EXTENDS RoomsOps, FiniteSets, TLC

CONSTANTS Sockets, Named     \* socket ids; named rooms.  Id rooms are the socket ids themselves.

AllRooms == Named \cup Sockets

VARIABLES
    rooms,   \* room -> set of sockets            (a.rooms)
    sids,    \* socket -> set of rooms, partial   (a.sids)
    live,    \* sockets in the namespace's socket store
    apc,     \* apply process: "idle" | "run" | "cb"
    aT, aE,  \* its options
    except,  \* except snapshot taken at the start
    seen,    \* dedup set
    got,     \* callbacks made so far (sequence of sockets)
    must, may, \* interval bookkeeping (history): members throughout / members at some point
    cur      \* socket whose callback is running

vars == <<rooms, sids, live, apc, aT, aE, except, seen, got, must, may, cur>>

Init == /\ rooms = [r \in AllRooms |-> {}] /\ sids = <<>> /\ live = {}
        /\ apc = "idle" /\ aT = {} /\ aE = {} /\ except = {} /\ seen = {} /\ got = <<>>
        /\ must = {} /\ may = {} /\ cur = CHOOSE s \in Sockets : TRUE

Mem == sids
Qualifies(s) == s \in DOMAIN sids /\ s \in live /\ (aT = {} \/ sids[s] \cap aT # {}) /\ sids[s] \cap aE = {}

\* interval bookkeeping after a membership change while an apply is running
Track == IF apc = "idle" THEN UNCHANGED <<must, may>>
         ELSE /\ must' = {s \in must : s \in DOMAIN sids' /\ s \in live' /\ (aT = {} \/ sids'[s] \cap aT # {}) /\ sids'[s] \cap aE = {}}
              /\ may' = may \cup {s \in DOMAIN sids' \cap live' : (aT = {} \/ sids'[s] \cap aT # {})}

SetSids(s, R) == [x \in DOMAIN sids \cup {s} |-> IF x = s THEN R ELSE sids[x]]

Connect(s) ==      \* namespace store set + join own room (onConnect)
    /\ s \notin live
    /\ live' = live \cup {s}
    /\ sids' = SetSids(s, (IF s \in DOMAIN sids THEN sids[s] ELSE {}) \cup {s})
    /\ rooms' = [rooms EXCEPT ![s] = @ \cup {s}]
    /\ UNCHANGED <<apc, aT, aE, except, seen, got, cur>> /\ Track

AddAll(s, R) ==    \* Join
    /\ s \in live /\ R # {}
    /\ sids' = SetSids(s, (IF s \in DOMAIN sids THEN sids[s] ELSE {}) \cup R)
    /\ rooms' = [r \in AllRooms |-> IF r \in R THEN rooms[r] \cup {s} ELSE rooms[r]]
    /\ UNCHANGED <<live, apc, aT, aE, except, seen, got, cur>> /\ Track

Delete(s, r) ==    \* Leave
    /\ s \in DOMAIN sids
    /\ sids' = [sids EXCEPT ![s] = @ \ {r}]
    /\ rooms' = [rooms EXCEPT ![r] = @ \ {s}]
    /\ UNCHANGED <<live, apc, aT, aE, except, seen, got, cur>> /\ Track

Disconnect(s) ==   \* onClose: leaveAll + remove from the store
    /\ s \in live
    /\ rooms' = [r \in AllRooms |-> rooms[r] \ {s}]
    /\ sids' = [x \in DOMAIN sids \ {s} |-> sids[x]]
    /\ live' = live \ {s}
    /\ UNCHANGED <<apc, aT, aE, except, seen, got, cur>> /\ Track

\* apply(): lock, compute the except set once
ApplyStart(T, E) ==
    /\ apc = "idle"
    /\ apc' = "run" /\ aT' = T /\ aE' = E
    /\ except' = UNION {rooms[r] : r \in E}
    /\ seen' = {} /\ got' = <<>>
    /\ must' = Recipients(sids, live, T, E)
    /\ may' = {s \in DOMAIN sids \cap live : (T = {} \/ sids[s] \cap T # {})}
    /\ UNCHANGED <<rooms, sids, live, cur>>

\* under the lock: pick the next socket (a member of a target room - or any entry - not seen,
\* not excepted, known to the store); then unlock for the callback
ApplyPick(s) ==
    /\ apc = "run"
    /\ s \notin seen /\ s \notin except /\ s \in live
    /\ IF aT = {} THEN s \in DOMAIN sids ELSE \E r \in aT : s \in rooms[r]
    /\ apc' = "cb" /\ cur' = s
    /\ UNCHANGED <<rooms, sids, live, aT, aE, except, seen, got, must, may>>

\* the callback ran (SendBuffers / Join / Leave / Disconnect on that socket); lock again
ApplyCallback ==
    /\ apc = "cb"
    /\ got' = Append(got, cur) /\ seen' = seen \cup {cur}
    /\ apc' = "run"
    /\ UNCHANGED <<rooms, sids, live, aT, aE, except, must, may, cur>>

Pickable == {s \in Sockets : s \notin seen /\ s \notin except /\ s \in live
                              /\ (IF aT = {} THEN s \in DOMAIN sids ELSE \E r \in aT : s \in rooms[r])}

ApplyEnd ==
    /\ apc = "run" /\ Pickable = {}
    /\ apc' = "idle"
    /\ UNCHANGED <<rooms, sids, live, aT, aE, except, seen, got, must, may, cur>>

Subsets(S) == SUBSET S

Next ==
    \/ \E s \in Sockets : Connect(s) \/ Disconnect(s)
                          \/ (\E R \in (SUBSET Named) \ {{}} : AddAll(s, R))
                          \/ (\E r \in AllRooms : Delete(s, r))
    \/ \E T \in SUBSET Named, E \in SUBSET Named : ApplyStart(T, E)
    \/ \E s \in Sockets : ApplyPick(s)
    \/ ApplyCallback \/ ApplyEnd

Spec == Init /\ [][Next]_vars

(***************************************************************************)
(* Properties (C04)                                                        *)
(***************************************************************************)
\* the two indexes are inverses of each other
Inverse == \A s \in Sockets, r \in AllRooms :
              (s \in DOMAIN sids /\ r \in sids[s]) <=> s \in rooms[r]

\* a disconnected socket belongs to no room
ClosedHasNoRooms == \A s \in Sockets : s \notin live => (s \notin DOMAIN sids /\ \A r \in AllRooms : s \notin rooms[r])

Range(q) == {q[i] : i \in 1..Len(q)}
\* nobody is reached twice by one broadcast
OnceEach == \A i, j \in 1..Len(got) : i # j => got[i] # got[j]

\* interval semantics when the call ends: members throughout were reached, never-members were not
IntervalAtEnd == [][ (apc = "run" /\ apc' = "idle") => (must \subseteq Range(got) /\ Range(got) \subseteq may) ]_vars
=============================================================================
