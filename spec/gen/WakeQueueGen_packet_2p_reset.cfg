CONSTANTS
  Kind = "packet"
  Producers = {p1,p2}
  Consumers = {c1}
  Closers = {k1}
  MaxPolls = 2
  Dev = {}
  TimeoutOn = FALSE
  CloserMode = "reset"
SPECIFICATION GenSpec
INVARIANTS PrintHist
CHECK_DEADLOCK FALSE
