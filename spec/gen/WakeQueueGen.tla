--------------------------- MODULE WakeQueueGen ---------------------------
(***************************************************************************)
(* Behaviour generator for scenario replay: WakeQueue plus a history       *)
(* variable naming, per step, the process that moved and the action.  In   *)
(* exhaustive mode the invariant PrintHist prints every maximal behaviour. *)
(***************************************************************************)
EXTENDS WakeQueue, Json

VARIABLE hist
gvars == <<vars, hist>>

H(proc, act) == hist' = Append(hist, <<ToString(proc), act>>)

GenInit == Init /\ hist = <<>>

GenNext ==
    \/ \E p \in Producers : \/ PollAdd(p, <<p>>, "done") /\ H(p, "add")
                            \/ PktAppend(p, <<p>>) /\ H(p, "append")
                            \/ PktSignal(p, "done") /\ H(p, "signal")
    \/ \E c \in Consumers : \/ Get1(c) /\ H(c, "get1")
                            \/ Park(c) /\ H(c, "park")
                            \/ Wake(c) /\ H(c, "wake")
                            \/ Get2(c) /\ H(c, "get2")
                            \/ Ret(c) /\ H(c, "ret")
                            \/ WakeClose(c) /\ H(c, "wakeclose")
                            \/ DrainSig(c) /\ H(c, "drainsig")
                            \/ SendOut(c) /\ H(c, "send")
    \/ \E k \in Closers :   \/ WaitDrainCheck(k) /\ H(k, "drainchk")
                            \/ WaitDrainReset(k) /\ H(k, "drainreset")
                            \/ Close(k) /\ H(k, "close")
                            \/ Reset(k) /\ H(k, "reset")

GenSpec == GenInit /\ [][GenNext]_gvars

PrintHist == (~ENABLED GenNext) => PrintT(<<"HIST", ToJson(hist)>>)
=============================================================================
