CONSTANTS
  Kind = "poll"
  Producers = {p1,p2}
  Consumers = {c1,c2}
  Closers = {}
  MaxPolls = 1
  Dev = {}
  TimeoutOn = FALSE
  CloserMode = "none"
SPECIFICATION GenSpec
INVARIANTS PrintHist
CHECK_DEADLOCK FALSE
