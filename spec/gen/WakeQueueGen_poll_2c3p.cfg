CONSTANTS
  Kind = "poll"
  Producers = {p1,p2,p3}
  Consumers = {c1,c2}
  Closers = {}
  MaxPolls = 2
  Dev = {}
  TimeoutOn = FALSE
  CloserMode = "none"
SPECIFICATION GenSpec
INVARIANTS PrintHist
CHECK_DEADLOCK FALSE
