------------------------------ MODULE AcksGen ------------------------------
(* Behaviour generator for C03: every interleaving of the reply path and   *)
(* the timer goroutine for the ids of the configuration (connected emitter). *)
EXTENDS Acks, Json
VARIABLE hist
gvars == <<vars, hist>>
H(id, act) == hist' = Append(hist, <<ToString(id), act>>)
GenInit == Init /\ connected = TRUE /\ hist = <<>>
GenNext ==
    \E id \in Ids :
        \/ Register(id) /\ H(id, "register")
        \/ Send(id) /\ H(id, "send")
        \/ PeerAck(id) /\ H(id, "peerack")
        \/ Lookup(id) /\ H(id, "lookup")
        \/ CallDecide(id) /\ H(id, "calldecide")
        \/ CallInvoke(id) /\ H(id, "callinvoke")
        \/ TimerWake(id) /\ H(id, "timerwake")
        \/ TimerDecide(id) /\ H(id, "timerdecide")
        \/ PurgeAcks(id) /\ H(id, "purgeacks")
        \/ PurgeBuf(id) /\ H(id, "purgebuf")
        \/ TimerInvoke(id) /\ H(id, "timerinvoke")
GenSpec == GenInit /\ [][GenNext]_gvars
PrintHist == (~ENABLED GenNext) => PrintT(<<"HIST", ToJson(hist)>>)
=============================================================================
