CONSTANTS
  Ids = {a,b}
  MaxFrames = 1
  Dev = {}
  WithTimeout = TRUE
  MaxDup = 0
SPECIFICATION GenSpec
INVARIANTS PrintHist
CHECK_DEADLOCK FALSE
