CONSTANTS
  Kind = "packet"
  Producers = {p1,p2}
  Consumers = {c1}
  Closers = {}
  MaxPolls = 2
  Dev = {}
  TimeoutOn = FALSE
  CloserMode = "none"
SPECIFICATION GenSpec
INVARIANTS PrintHist
CHECK_DEADLOCK FALSE
