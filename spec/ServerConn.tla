----------------------------- MODULE ServerConn -----------------------------
(***************************************************************************)
(* Server-side life cycle of connections, namespaces and sockets           *)
(* (properties C05, C06, C12):                                             *)
(*   server_conn.go   onParserFinish (one goroutine per packet, routing by *)
(*                    namespace), connect (admission), onClose (closeOnce: *)
(*                    take all sockets, close each), close                 *)
(*   namespace.go     add: middlewares in order -> doConnect (socket store *)
(*                    set, onConnect, connection handlers)                 *)
(*   server_socket.go onConnect (own room, CONNECT reply, connected),      *)
(*                    onClose (closeOnce; early return when not connected; *)
(*                    leave rooms, remove from namespace and connection,   *)
(*                    disconnect handlers)                                 *)
(* One connection c carries at most one socket per namespace n.            *)
(* Deviation "NoRecheck": connect() does not look at the connection again  *)
(* after registering the socket (the code before fix F11).                 *)
(***************************************************************************)
EXTENDS Naturals, Sequences, FiniteSets, TLC

CONSTANTS Conns, Nsps, Chain, Dev
\* Chain : Nsps -> sequence of verdicts, each "accept" or "reject"

VARIABLES
    eio,        \* c -> "open" | "closed"       (Engine.IO session in the store or not)
    cclosed,    \* c -> connection's onClose body has run (closeOnce)
    spc,        \* <<c,n>> -> socket pc:
                \*   "absent" "mw" "rejected" "admitted" "connected" "registered" "closed"
    mwi,        \* <<c,n>> -> index of the next middleware
    mwlog,      \* <<c,n>> -> sequence of middleware indexes that ran
    inNsp,      \* <<c,n>> -> in the namespace's socket store
    inConn,     \* <<c,n>> -> in the connection's socket store
    room,       \* <<c,n>> -> joined to its own room
    connected,  \* <<c,n>> -> serverSocket.connected
    once,       \* <<c,n>> -> socket.onClose's closeOnce consumed
    connRuns,   \* <<c,n>> -> connection handlers ran (0/1)
    discRuns,   \* <<c,n>> -> sequence of disconnect reasons reported
    reply,      \* <<c,n>> -> "none" | "connect" | "error"   (what the client was sent)
    kpc,        \* c -> connection close process: "idle" | "marked" | "taking" | "done"
    taken,      \* c -> sockets taken by getAndRemoveAll, still to be closed
    reason      \* c -> reason of the connection's close

vars == <<eio, cclosed, spc, mwi, mwlog, inNsp, inConn, room, connected, once, connRuns, discRuns, reply, kpc, taken, reason>>

CN == Conns \X Nsps

Init ==
    /\ eio = [c \in Conns |-> "open"] /\ cclosed = [c \in Conns |-> FALSE]
    /\ spc = [x \in CN |-> "absent"] /\ mwi = [x \in CN |-> 1] /\ mwlog = [x \in CN |-> <<>>]
    /\ inNsp = [x \in CN |-> FALSE] /\ inConn = [x \in CN |-> FALSE] /\ room = [x \in CN |-> FALSE]
    /\ connected = [x \in CN |-> FALSE] /\ once = [x \in CN |-> FALSE]
    /\ connRuns = [x \in CN |-> 0] /\ discRuns = [x \in CN |-> <<>>] /\ reply = [x \in CN |-> "none"]
    /\ kpc = [c \in Conns |-> "idle"] /\ taken = [c \in Conns |-> {}] /\ reason = [c \in Conns |-> "none"]

\* a CONNECT packet for a namespace the connection has not joined: admission starts
RecvConnect(c, n) ==
    /\ spc[<<c, n>>] = "absent" /\ eio[c] = "open"
    /\ spc' = [spc EXCEPT ![<<c, n>>] = "mw"]
    /\ UNCHANGED <<eio, cclosed, mwi, mwlog, inNsp, inConn, room, connected, once, connRuns, discRuns, reply, kpc, taken, reason>>

\* the next middleware runs; the first rejection stops the chain
MwStep(c, n) ==
    LET x == <<c, n>> IN
    /\ spc[x] = "mw" /\ mwi[x] <= Len(Chain[n])
    /\ mwlog' = [mwlog EXCEPT ![x] = Append(@, mwi[x])]
    /\ IF Chain[n][mwi[x]] = "reject"
         THEN /\ spc' = [spc EXCEPT ![x] = "rejected"] /\ reply' = [reply EXCEPT ![x] = "error"]
              /\ UNCHANGED mwi
         ELSE /\ mwi' = [mwi EXCEPT ![x] = @ + 1] /\ UNCHANGED <<spc, reply>>
    /\ UNCHANGED <<eio, cclosed, inNsp, inConn, room, connected, once, connRuns, discRuns, kpc, taken, reason>>

\* doConnect, step 1: the namespace's socket store
NspSet(c, n) ==
    LET x == <<c, n>> IN
    /\ spc[x] = "mw" /\ mwi[x] > Len(Chain[n])
    /\ inNsp' = [inNsp EXCEPT ![x] = TRUE] /\ spc' = [spc EXCEPT ![x] = "admitted"]
    /\ UNCHANGED <<eio, cclosed, mwi, mwlog, inConn, room, connected, once, connRuns, discRuns, reply, kpc, taken, reason>>

\* step 2: onConnect - own room, CONNECT reply, connected; connection handlers are started
OnConnect(c, n) ==
    LET x == <<c, n>> IN
    /\ spc[x] = "admitted"
    /\ room' = [room EXCEPT ![x] = TRUE] /\ reply' = [reply EXCEPT ![x] = "connect"]
    /\ connected' = [connected EXCEPT ![x] = TRUE] /\ connRuns' = [connRuns EXCEPT ![x] = 1]
    /\ spc' = [spc EXCEPT ![x] = "connected"]
    /\ UNCHANGED <<eio, cclosed, mwi, mwlog, inNsp, inConn, once, discRuns, kpc, taken, reason>>

\* step 3 (back in serverConn.connect): the connection's socket store
ConnSet(c, n) ==
    LET x == <<c, n>> IN
    /\ spc[x] = "connected"
    /\ inConn' = [inConn EXCEPT ![x] = TRUE]
    /\ spc' = [spc EXCEPT ![x] = IF "NoRecheck" \in Dev THEN "registered" ELSE "recheck"]
    /\ UNCHANGED <<eio, cclosed, mwi, mwlog, inNsp, room, connected, once, connRuns, discRuns, reply, kpc, taken, reason>>

\* socket.onClose(r): once; nothing happens for a socket that never got connected
SockCloseEffect(x, r) ==
    IF once[x] THEN UNCHANGED <<once, room, inNsp, inConn, connected, discRuns>>
    ELSE /\ once' = [once EXCEPT ![x] = TRUE]
         /\ IF ~connected[x] THEN UNCHANGED <<room, inNsp, inConn, connected, discRuns>>
            ELSE /\ room' = [room EXCEPT ![x] = FALSE] /\ inNsp' = [inNsp EXCEPT ![x] = FALSE]
                 /\ inConn' = [inConn EXCEPT ![x] = FALSE] /\ connected' = [connected EXCEPT ![x] = FALSE]
                 /\ discRuns' = [discRuns EXCEPT ![x] = Append(@, r)]

\* step 4: the connection may have been closed while admission ran: close the socket then
Recheck(c, n) ==
    LET x == <<c, n>> IN
    /\ spc[x] = "recheck"
    /\ IF cclosed[c] THEN SockCloseEffect(x, reason[c])
                     ELSE UNCHANGED <<once, room, inNsp, inConn, connected, discRuns>>
    /\ spc' = [spc EXCEPT ![x] = "registered"]
    /\ UNCHANGED <<eio, cclosed, mwi, mwlog, connRuns, reply, kpc, taken, reason>>

\* the Engine.IO session ends (any cause r): serverConn.onClose, closeOnce
ConnCloseMark(c, r) ==
    /\ kpc[c] = "idle"
    /\ eio' = [eio EXCEPT ![c] = "closed"] /\ cclosed' = [cclosed EXCEPT ![c] = TRUE]
    /\ reason' = [reason EXCEPT ![c] = r] /\ kpc' = [kpc EXCEPT ![c] = "marked"]
    /\ UNCHANGED <<spc, mwi, mwlog, inNsp, inConn, room, connected, once, connRuns, discRuns, reply, taken>>

ConnTakeAll(c) ==
    /\ kpc[c] = "marked"
    /\ taken' = [taken EXCEPT ![c] = {n \in Nsps : inConn[<<c, n>>]}]
    /\ inConn' = [x \in CN |-> IF x[1] = c THEN FALSE ELSE inConn[x]]
    /\ kpc' = [kpc EXCEPT ![c] = "taking"]
    /\ UNCHANGED <<eio, cclosed, spc, mwi, mwlog, inNsp, room, connected, once, connRuns, discRuns, reply, reason>>

ConnCloseEach(c) ==
    /\ kpc[c] = "taking"
    /\ IF taken[c] = {} THEN /\ kpc' = [kpc EXCEPT ![c] = "done"]
                             /\ UNCHANGED <<taken, once, room, inNsp, inConn, connected, discRuns>>
       ELSE \E n \in taken[c] :
              /\ taken' = [taken EXCEPT ![c] = @ \ {n}]
              /\ SockCloseEffect(<<c, n>>, reason[c]) /\ UNCHANGED kpc
    /\ UNCHANGED <<eio, cclosed, spc, mwi, mwlog, connRuns, reply, reason>>

\* one namespace is left (DISCONNECT packet from the client / ServerSocket.Disconnect(false))
NspDisconnect(c, n, r) ==
    LET x == <<c, n>> IN
    /\ spc[x] = "registered" /\ connected[x]
    /\ SockCloseEffect(x, r)
    /\ UNCHANGED <<eio, cclosed, spc, mwi, mwlog, connRuns, reply, kpc, taken, reason>>

Next ==
    \/ \E c \in Conns, n \in Nsps : RecvConnect(c, n) \/ MwStep(c, n) \/ NspSet(c, n) \/ OnConnect(c, n)
                                    \/ ConnSet(c, n) \/ Recheck(c, n)
                                    \/ NspDisconnect(c, n, "client namespace disconnect")
    \/ \E c \in Conns : ConnCloseMark(c, "transport close") \/ ConnTakeAll(c) \/ ConnCloseEach(c)

Spec == Init /\ [][Next]_vars

(***************************************************************************)
(* Properties                                                              *)
(***************************************************************************)
Settled(c) == kpc[c] = "done" /\ \A n \in Nsps : spc[<<c, n>>] \in {"absent", "rejected", "registered"}

\* C06: every socket that had connected gets exactly one disconnect report once its connection ended
ExactlyOneDisconnect ==
    \A c \in Conns : Settled(c) => \A n \in Nsps : (connRuns[<<c, n>>] = 1 => Len(discRuns[<<c, n>>]) = 1)
AtMostOneDisconnect == \A x \in CN : Len(discRuns[x]) <= 1

\* C06: and nothing of it is left on the server
NoResidue ==
    \A c \in Conns : Settled(c) => \A n \in Nsps :
        LET x == <<c, n>> IN ~inNsp[x] /\ ~inConn[x] /\ ~room[x] /\ ~connected[x]

\* C12: a socket is attached (listed, in its room, handlers run, CONNECT sent) only after every middleware accepted
AttachOnlyAfterAccept ==
    \A x \in CN : (inNsp[x] \/ room[x] \/ connected[x] \/ connRuns[x] = 1 \/ reply[x] = "connect")
                    => /\ Len(mwlog[x]) = Len(Chain[x[2]])
                       /\ \A i \in 1..Len(Chain[x[2]]) : Chain[x[2]][i] = "accept"

\* C12: middlewares run in registration order and none runs after the first rejection
MwOrderAndStop ==
    \A x \in CN : /\ \A i \in 1..Len(mwlog[x]) : mwlog[x][i] = i
                  /\ \A i \in 1..(Len(mwlog[x]) - 1) : Chain[x[2]][i] = "accept"

\* C12: a rejected client gets CONNECT_ERROR and leaves nothing behind
RejectedLeavesNothing ==
    \A x \in CN : spc[x] = "rejected" => reply[x] = "error" /\ ~inNsp[x] /\ ~inConn[x] /\ ~room[x] /\ ~connected[x] /\ connRuns[x] = 0

\* C05: leaving one namespace does not disturb the others on the same connection
Isolation == [][\A c \in Conns, n \in Nsps, m \in Nsps :
                   (m # n /\ connected[<<c, n>>] /\ ~connected'[<<c, n>>] /\ kpc[c] = "idle" /\ kpc'[c] = "idle" /\ spc'[<<c,n>>] # "recheck")
                      => connected'[<<c, m>>] = connected[<<c, m>>]]_vars
=============================================================================
