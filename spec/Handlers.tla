------------------------------ MODULE Handlers ------------------------------
(***************************************************************************)
(* The handler registries of store.go (property C18):                      *)
(*   handlerStore[T]      {subs, funcs, funcsOnce}  - life-cycle handlers  *)
(*   eventHandlerStore    {events, eventsOnce}      - per event name       *)
(* Every method is one critical section under the store's mutex, so each   *)
(* is one action.  A registration is a pair <<handler, ticket>>; tickets   *)
(* are history (they make "this very registration" expressible) and the    *)
(* code has no counterpart for them.  handlerStore is the instance with a  *)
(* single event name.                                                      *)
(*                                                                         *)
(* The pure operators (AppendH, RemoveH, FireList) are the reference       *)
(* semantics; the trace specification applies the same operators to the    *)
(* states observed on the real stores.                                     *)
(***************************************************************************)
EXTENDS HandlersOps, FiniteSets, TLC

CONSTANTS Handlers, Events, MaxLen, MaxOps, MaxOff

VARIABLES
    subs, on, once,   \* [Events -> Seq(<<handler, ticket>>)]
    nextT,            \* next ticket
    ran,              \* ticket -> how many fires returned it
    due,              \* ticket -> how many fires of its event happened while it was registered with On
    gone,             \* tickets removed by an Off/OffAll
    kind,             \* ticket -> "on" | "once" | "sub"
    nops

vars == <<subs, on, once, nextT, ran, due, gone, kind, nops>>

Hs(seq) == [i \in 1..Len(seq) |-> seq[i][1]]     \* handler identities of a registration list
Ts(seq) == {seq[i][2] : i \in 1..Len(seq)}

Init ==
    /\ subs = [e \in Events |-> <<>>] /\ on = [e \in Events |-> <<>>] /\ once = [e \in Events |-> <<>>]
    /\ nextT = 1 /\ ran = <<>> /\ due = <<>> /\ kind = <<>> /\ gone = {} /\ nops = 0

NewTicket(k) ==
    /\ nextT' = nextT + 1
    /\ ran' = Append(ran, 0) /\ due' = Append(due, 0) /\ kind' = Append(kind, k)

Step == nops < MaxOps /\ nops' = nops + 1

On(e, h) ==
    /\ Step /\ Len(on[e]) < MaxLen
    /\ on' = [on EXCEPT ![e] = Append(@, <<h, nextT>>)]
    /\ NewTicket("on")
    /\ UNCHANGED <<subs, once, gone>>

Once(e, h) ==
    /\ Step /\ Len(once[e]) < MaxLen
    /\ once' = [once EXCEPT ![e] = Append(@, <<h, nextT>>)]
    /\ NewTicket("once")
    /\ UNCHANGED <<subs, on, gone>>

OnSub(e, h) ==
    /\ Step /\ Len(subs[e]) < MaxLen
    /\ subs' = [subs EXCEPT ![e] = Append(@, <<h, nextT>>)]
    /\ NewTicket("sub")
    /\ UNCHANGED <<on, once, gone>>

RemoveRegs(seq, H) == SelectSeq(seq, LAMBDA r : r[1] \notin H)

\* Off(e, h1, ..., hn): removes every registration of every named handler, nothing else
Off(e, H) ==
    /\ Step /\ H # {}
    /\ on' = [on EXCEPT ![e] = RemoveRegs(@, H)]
    /\ once' = [once EXCEPT ![e] = RemoveRegs(@, H)]
    /\ gone' = gone \cup (Ts(on[e]) \ Ts(on'[e])) \cup (Ts(once[e]) \ Ts(once'[e]))
    /\ UNCHANGED <<subs, nextT, ran, due, kind>>

\* Off(e) with no handler: all On/Once handlers of that event (not the sub-events)
OffAllOf(e) ==
    /\ Step
    /\ on' = [on EXCEPT ![e] = <<>>] /\ once' = [once EXCEPT ![e] = <<>>]
    /\ gone' = gone \cup Ts(on[e]) \cup Ts(once[e])
    /\ UNCHANGED <<subs, nextT, ran, due, kind>>

OffAll ==
    /\ Step
    /\ on' = [e \in Events |-> <<>>] /\ once' = [e \in Events |-> <<>>]
    /\ gone' = gone \cup UNION {Ts(on[e]) \cup Ts(once[e]) : e \in Events}
    /\ UNCHANGED <<subs, nextT, ran, due, kind>>

OffSub(e, h) ==
    /\ Step
    /\ subs' = [subs EXCEPT ![e] = RemoveRegs(@, {h})]
    /\ gone' = gone \cup (Ts(subs[e]) \ Ts(subs'[e]))
    /\ UNCHANGED <<on, once, nextT, ran, due, kind>>

\* getAll: take subs, On and Once handlers in that order, clear the Once list - atomically
Fire(e) ==
    /\ Step
    /\ LET res == FireList(subs[e], on[e], once[e]) IN
         /\ ran' = [t \in DOMAIN ran |-> IF t \in Ts(res) THEN ran[t] + 1 ELSE ran[t]]
         /\ due' = [t \in DOMAIN due |-> IF t \in Ts(on[e]) \cup Ts(subs[e]) THEN due[t] + 1 ELSE due[t]]
    /\ once' = [once EXCEPT ![e] = <<>>]
    /\ UNCHANGED <<subs, on, nextT, kind, gone>>

OffSets == {H \in SUBSET Handlers : H # {} /\ Cardinality(H) <= MaxOff}

Next ==
    \/ \E e \in Events, h \in Handlers : On(e, h) \/ Once(e, h) \/ OnSub(e, h) \/ OffSub(e, h)
    \/ \E e \in Events, H \in OffSets : Off(e, H)
    \/ \E e \in Events : OffAllOf(e) \/ Fire(e)
    \/ OffAll

Spec == Init /\ [][Next]_vars

(***************************************************************************)
(* Properties (C18)                                                        *)
(***************************************************************************)
Tickets == DOMAIN ran

\* a Once registration is returned by at most one occurrence
OnceAtMostOnce == \A t \in Tickets : kind[t] = "once" => ran[t] <= 1

\* an On registration is returned by every occurrence while it is registered
OnEveryTime == \A t \in Tickets : kind[t] \in {"on", "sub"} => ran[t] = due[t]

\* what was removed never fires again, and removal is exact:
\* a registration disappears only through Fire (once) or an Off that names it
GoneStaysGone == \A e \in Events : (Ts(on[e]) \cup Ts(once[e]) \cup Ts(subs[e])) \cap gone = {}

\* Off(e, H) leaves exactly the registrations of other handlers, in order
OffExact ==
    [][\A e \in Events, H \in OffSets :
          Off(e, H) => /\ Hs(on'[e]) = RemoveH(Hs(on[e]), H)
                       /\ Hs(once'[e]) = RemoveH(Hs(once[e]), H)
                       /\ \A f \in Events \ {e} : on'[f] = on[f] /\ once'[f] = once[f]]_vars

\* an On registration stays until an Off names it
OnPersists ==
    [][\A e \in Events : \A i \in 1..Len(on[e]) :
          (on[e][i][2] \notin Ts(on'[e])) => on[e][i][2] \in gone']_vars

\* no operation is ever disabled for want of a defined result (code: no panic)
Total == \A e \in Events, h \in Handlers :
            nops < MaxOps => ENABLED OffSub(e, h) /\ ENABLED Fire(e) /\ ENABLED OffAllOf(e) /\ ENABLED Off(e, {h})
=============================================================================
