-------------------------------- MODULE Acks --------------------------------
(***************************************************************************)
(* Acknowledgements of one emitting socket (property C03).                 *)
(*   handler.go       ackHandler{called, timedOut, mu}, newAckHandlerWith- *)
(*                    Timeout (timer goroutine), ackHandler.call           *)
(*   client_socket.go / server_socket.go                                   *)
(*                    registerAckHandler, onAck (lookup + delete under     *)
(*                    acksMu), the time-out closure (delete from acks,     *)
(*                    purge the offline send buffer under sendBufferMu),   *)
(*                    _sendBuffers / emitBuffered (offline frames)         *)
(* Two processes race per ack id: the reply path (peer's ack packet ->     *)
(* onAck -> call) and the timer goroutine.  Each critical section is one   *)
(* action.  Deviations (constant Dev) are what the code must not do:       *)
(*   "NoCalledCheck"  the timer ignores `called`                           *)
(*   "NoDelete"       onAck does not delete the entry it found             *)
(*   "PurgeCrash"     the purge dies when the id owns >= 2 buffered frames *)
(*                    (the time-out callback is lost, sendBufferMu stays   *)
(*                    locked) - the behaviour repaired by fix F3           *)
(***************************************************************************)
EXTENDS Naturals, Sequences, FiniteSets, TLC

CONSTANTS Ids, MaxFrames, Dev, WithTimeout, MaxDup

VARIABLES
    emitted,    \* ids handed to Emit
    acks,       \* ids present in the socket's ack map
    called, timedOut,  \* per-handler flags (under h.mu)
    sendBuf,    \* offline frames: sequence of <<id, k>>
    connected,  \* socket state
    sent,       \* ids whose frames reached the wire
    rpc,        \* reply path pc per id
    tpc,        \* timer pc per id
    cb,         \* invocations of the user callback per id
    dups,       \* duplicate ack packets a hostile peer sent
    sbLocked,   \* sendBufferMu left locked (only with PurgeCrash)
    epc         \* emit pc per id: "idle" | "reg" | "out"

vars == <<emitted, acks, called, timedOut, sendBuf, connected, sent, rpc, tpc, cb, dups, sbLocked, epc>>

Init ==
    /\ emitted = {} /\ acks = {} /\ sent = {}
    /\ called = [i \in Ids |-> FALSE] /\ timedOut = [i \in Ids |-> FALSE]
    /\ sendBuf = <<>> /\ connected \in BOOLEAN
    /\ rpc = [i \in Ids |-> "idle"] /\ tpc = [i \in Ids |-> "idle"]
    /\ cb = [i \in Ids |-> <<>>] /\ dups = 0 /\ sbLocked = FALSE
    /\ epc = [i \in Ids |-> "idle"]

Frames(id, n) == [k \in 1..n |-> <<id, k>>]
Without(buf, id) == SelectSeq(buf, LAMBDA f : f[1] # id)
CountOf(buf, id) == Len(SelectSeq(buf, LAMBDA f : f[1] = id))

\* Emit with an ack function, step 1: registerAckHandler (under acksMu); the timer starts
Register(id) ==
    /\ id \notin emitted
    /\ emitted' = emitted \cup {id}
    /\ acks' = acks \cup {id}
    /\ tpc' = [tpc EXCEPT ![id] = IF WithTimeout THEN "sleep" ELSE "none"]
    /\ epc' = [epc EXCEPT ![id] = "reg"]
    /\ UNCHANGED <<called, timedOut, sendBuf, connected, sent, rpc, cb, dups, sbLocked>>

\* step 2a: connected (or connect pending) - all frames go to the packet queue at once
Send(id) ==
    /\ epc[id] = "reg" /\ connected
    /\ sent' = sent \cup {id}
    /\ epc' = [epc EXCEPT ![id] = "out"]
    /\ UNCHANGED <<emitted, acks, called, timedOut, sendBuf, connected, rpc, tpc, cb, dups, sbLocked>>

\* step 2b: not connected - all frames are appended to the offline buffer (under sendBufferMu)
Buffer(id, n) ==
    /\ epc[id] = "reg" /\ ~connected /\ ~sbLocked
    /\ sendBuf' = sendBuf \o Frames(id, n)
    /\ epc' = [epc EXCEPT ![id] = "out"]
    /\ UNCHANGED <<emitted, acks, called, timedOut, connected, sent, rpc, tpc, cb, dups, sbLocked>>

\* CONNECT reply: emitBuffered flushes the offline frames in order
Connect ==
    /\ ~connected /\ ~sbLocked
    /\ connected' = TRUE
    /\ sent' = sent \cup {sendBuf[k][1] : k \in 1..Len(sendBuf)}
    /\ sendBuf' = <<>>
    /\ UNCHANGED <<emitted, acks, called, timedOut, rpc, tpc, cb, dups, sbLocked, epc>>

Disconnect ==
    /\ connected /\ connected' = FALSE
    /\ UNCHANGED <<emitted, acks, called, timedOut, sendBuf, sent, rpc, tpc, cb, dups, sbLocked, epc>>

\* the peer calls the ack function of the event it received (one-reply guard: sendAck)
PeerAck(id) ==
    /\ id \in sent /\ rpc[id] = "idle"
    /\ rpc' = [rpc EXCEPT ![id] = "inflight"]
    /\ UNCHANGED <<emitted, acks, called, timedOut, sendBuf, connected, sent, tpc, cb, dups, sbLocked, epc>>

\* a hostile peer repeats an ack packet
DupAck(id) ==
    /\ dups < MaxDup /\ rpc[id] = "done"
    /\ dups' = dups + 1
    /\ rpc' = [rpc EXCEPT ![id] = "inflight"]
    /\ UNCHANGED <<emitted, acks, called, timedOut, sendBuf, connected, sent, tpc, cb, sbLocked, epc>>

\* onAck: lookup and delete under acksMu
Lookup(id) ==
    /\ rpc[id] = "inflight"
    /\ IF id \in acks
         THEN /\ rpc' = [rpc EXCEPT ![id] = "found"]
              /\ acks' = IF "NoDelete" \in Dev THEN acks ELSE acks \ {id}
         ELSE /\ rpc' = [rpc EXCEPT ![id] = "done"]      \* "ACK with ID not found" -> error handlers
              /\ UNCHANGED acks
    /\ UNCHANGED <<emitted, called, timedOut, sendBuf, connected, sent, tpc, cb, dups, sbLocked, epc>>

\* ackHandler.call: decide under h.mu
CallDecide(id) ==
    /\ rpc[id] = "found"
    /\ IF timedOut[id] THEN rpc' = [rpc EXCEPT ![id] = "done"] /\ UNCHANGED called
                       ELSE rpc' = [rpc EXCEPT ![id] = "run"] /\ called' = [called EXCEPT ![id] = TRUE]
    /\ UNCHANGED <<emitted, acks, timedOut, sendBuf, connected, sent, tpc, cb, dups, sbLocked, epc>>

CallInvoke(id) ==
    /\ rpc[id] = "run"
    /\ cb' = [cb EXCEPT ![id] = Append(@, "reply")]
    /\ rpc' = [rpc EXCEPT ![id] = "done"]
    /\ UNCHANGED <<emitted, acks, called, timedOut, sendBuf, connected, sent, tpc, dups, sbLocked, epc>>

\* timer goroutine: time.Sleep returns
TimerWake(id) ==
    /\ tpc[id] = "sleep" /\ tpc' = [tpc EXCEPT ![id] = "woken"]
    /\ UNCHANGED <<emitted, acks, called, timedOut, sendBuf, connected, sent, rpc, cb, dups, sbLocked, epc>>

\* decide under h.mu
TimerDecide(id) ==
    /\ tpc[id] = "woken"
    /\ IF called[id] /\ "NoCalledCheck" \notin Dev
         THEN tpc' = [tpc EXCEPT ![id] = "done"] /\ UNCHANGED timedOut
         ELSE tpc' = [tpc EXCEPT ![id] = "won"] /\ timedOut' = [timedOut EXCEPT ![id] = TRUE]
    /\ UNCHANGED <<emitted, acks, called, sendBuf, connected, sent, rpc, cb, dups, sbLocked, epc>>

\* timeoutFunc, first critical section: delete from acks (acksMu)
PurgeAcks(id) ==
    /\ tpc[id] = "won"
    /\ acks' = acks \ {id}
    /\ tpc' = [tpc EXCEPT ![id] = "won2"]
    /\ UNCHANGED <<emitted, called, timedOut, sendBuf, connected, sent, rpc, cb, dups, sbLocked, epc>>

\* second critical section: drop exactly this id's offline frames (sendBufferMu)
PurgeBuf(id) ==
    /\ tpc[id] = "won2" /\ ~sbLocked
    /\ IF "PurgeCrash" \in Dev /\ CountOf(sendBuf, id) >= 2
         THEN /\ tpc' = [tpc EXCEPT ![id] = "crashed"] /\ sbLocked' = TRUE
              /\ UNCHANGED sendBuf
         ELSE /\ tpc' = [tpc EXCEPT ![id] = "purged"] /\ sendBuf' = Without(sendBuf, id)
              /\ UNCHANGED sbLocked
    /\ UNCHANGED <<emitted, acks, called, timedOut, connected, sent, rpc, cb, dups, epc>>

TimerInvoke(id) ==
    /\ tpc[id] = "purged"
    /\ cb' = [cb EXCEPT ![id] = Append(@, "timeout")]
    /\ tpc' = [tpc EXCEPT ![id] = "done"]
    /\ UNCHANGED <<emitted, acks, called, timedOut, sendBuf, connected, sent, rpc, dups, sbLocked, epc>>

Next ==
    \/ \E id \in Ids : Register(id) \/ Send(id) \/ \E n \in 1..MaxFrames : Buffer(id, n)
    \/ Connect \/ Disconnect
    \/ \E id \in Ids : PeerAck(id) \/ DupAck(id) \/ Lookup(id) \/ CallDecide(id) \/ CallInvoke(id)
                       \/ TimerWake(id) \/ TimerDecide(id) \/ PurgeAcks(id) \/ PurgeBuf(id) \/ TimerInvoke(id)

Spec == Init /\ [][Next]_vars

Fairness == \A id \in Ids :
    /\ WF_vars(Lookup(id)) /\ WF_vars(CallDecide(id)) /\ WF_vars(CallInvoke(id))
    /\ WF_vars(TimerWake(id)) /\ WF_vars(TimerDecide(id)) /\ WF_vars(PurgeAcks(id)) /\ WF_vars(PurgeBuf(id)) /\ WF_vars(TimerInvoke(id))
FairSpec == Spec /\ Fairness

(***************************************************************************)
(* Properties (C03)                                                        *)
(***************************************************************************)
AtMostOnce == \A id \in Ids : Len(cb[id]) <= 1

\* with a time-out: exactly once, eventually
ExactlyOnceEventually == WithTimeout => \A id \in Ids : [](id \in emitted => <>(Len(cb[id]) = 1))

\* the reply wins only if the peer really acknowledged, the time-out only if the timer won h.mu
RightOutcome == \A id \in Ids :
    /\ (cb[id] # <<>> /\ cb[id][1] = "reply") => ((called[id] /\ ~timedOut[id]) \/ "NoCalledCheck" \in Dev)
    /\ (cb[id] # <<>> /\ cb[id][1] = "timeout") => timedOut[id]

\* the purge removes exactly the frames of its own id and keeps the order of the rest
PurgeExact == [][\A id \in Ids : (tpc[id] = "won2" /\ tpc'[id] = "purged") => sendBuf' = Without(sendBuf, id)]_vars

\* nothing stays locked, the socket stays usable
NoLockLeft == ~sbLocked

\* a timed-out ack no longer has an entry (its offline frames are dropped by the
\* purge - PurgeExact; frames buffered *after* the purge, possible only with a
\* time-out shorter than the emit itself, are not covered by C03)
PurgedClean == \A id \in Ids : tpc[id] \in {"purged", "done"} /\ timedOut[id] => id \notin acks
=============================================================================
