----------------------------- MODULE RetryQueue -----------------------------
(***************************************************************************)
(* The client's retry queue (client_packet_queue.go).  Beyond the listed   *)
(* properties, attached to C16's check because of what it found: with      *)
(* ClientSocketConfig.Retries > 0 every non-volatile emit goes through a   *)
(* FIFO of which only the head is in flight; the head is re-sent when its  *)
(* acknowledgement times out (AckTimeout) - at most Retries more times -   *)
(* and on every reconnection; it leaves the queue when it is acknowledged  *)
(* or given up.  Delivery is at-least-once, in order.                      *)
(*                                                                         *)
(*   addToQueue   append, then drainQueue(false)                           *)
(*   drainQueue   under pq.mu: connected, queue non-empty, head not pending *)
(*                (or forced): pending, tryCount++, `go emit(fromQueue)`   *)
(*   emit         registers the replacement ack with the ack time-out and  *)
(*                sends; every try has an ack id and a timer of its own    *)
(*   replacementAck(err) of one try: success -> drop the head, user's ack; *)
(*                time-out -> give up if tryCount > Retries (drop the      *)
(*                head, user's ack with the error); then pending := false, *)
(*                drainQueue(false)                                        *)
(*   onConnect    drainQueue(true)                                         *)
(*                                                                         *)
(* A reconnection leaves the timer of the earlier try running.  Deviation  *)
(* "NoHeadCheck" is the code as found: the callback of a stale try drops   *)
(* "the head" whatever it is - another packet, or nothing: slicing the     *)
(* empty queue panics under pq.mu, the panic is swallowed by the recover   *)
(* around ack time-outs, the mutex stays locked and every later Emit       *)
(* blocks for ever (`wedged`).  Without the deviation a callback acts only *)
(* while its packet is the head (as the reference implementation does).    *)
(* "RetryOffByOne" gives up one try early.                                 *)
(***************************************************************************)
EXTENDS Naturals, Sequences, FiniteSets, TLC

CONSTANTS Retries, NPackets, MaxOutages, MaxTimeouts, Dev

VARIABLES queue,      \* sequence of packet ids
          tries,      \* id -> tryCount
          pending,    \* id -> BOOLEAN
          next,       \* next packet id to emit
          connected, outages, timeouts,
          flight,     \* sends on the wire, FIFO: sequence of <<id, try>>
          armed,      \* registered replacement acks whose time-out has not fired: set of <<id, try>>
          acks,       \* acknowledgements on their way back: set of <<id, try>>
          delivered,  \* ids in the order the server's handler was entered
          told,       \* id -> sequence of what the user's acknowledgement was told ("ok" / "failed")
          wedged      \* pq.mu left locked
vars == <<queue, tries, pending, next, connected, outages, timeouts, flight, armed, acks, delivered, told, wedged>>

Ids == 1..NPackets
Init == /\ queue = <<>> /\ tries = [i \in Ids |-> 0] /\ pending = [i \in Ids |-> FALSE]
        /\ next = 1 /\ connected = TRUE /\ outages = 0 /\ timeouts = 0
        /\ flight = <<>> /\ armed = {} /\ acks = {} /\ delivered = <<>>
        /\ told = [i \in Ids |-> <<>>] /\ wedged = FALSE

\* drainQueue(force) applied to (q, tr, pe): sends the head if it may
Drain(q, tr, pe, fl, ar, force) ==
    IF connected' /\ q # <<>> /\ (~pe[q[1]] \/ force)
      THEN /\ tries' = [tr EXCEPT ![q[1]] = @ + 1]
           /\ pending' = [pe EXCEPT ![q[1]] = TRUE]
           /\ flight' = Append(fl, <<q[1], tr[q[1]] + 1>>)
           /\ armed' = ar \cup {<<q[1], tr[q[1]] + 1>>}
      ELSE /\ tries' = tr /\ pending' = pe /\ flight' = fl /\ armed' = ar

Emit == /\ next <= NPackets /\ ~wedged                     \* (a wedged queue blocks the caller: no step)
        /\ next' = next + 1
        /\ queue' = Append(queue, next)
        /\ connected' = connected
        /\ Drain(queue', tries, pending, flight, armed, FALSE)
        /\ UNCHANGED <<outages, timeouts, acks, delivered, told, wedged>>

\* the server handles a send and acknowledges it
Deliver(s) == /\ flight # <<>> /\ s = Head(flight) /\ connected
              /\ flight' = Tail(flight)
              /\ delivered' = Append(delivered, s[1])
              /\ acks' = acks \cup {s}
              /\ UNCHANGED <<queue, tries, pending, next, connected, outages, timeouts, armed, told, wedged>>

IsHead(id) == queue # <<>> /\ queue[1] = id
GiveUp(t) == IF "RetryOffByOne" \in Dev THEN t >= Retries ELSE t > Retries

\* replacementAck of try s; err = the time-out fired
Callback(s, err) ==
    /\ ~wedged
    /\ connected' = connected
    /\ IF ~IsHead(s[1]) /\ "NoHeadCheck" \notin Dev
         THEN \* a stale try: its packet was settled already
              UNCHANGED <<queue, tries, pending, flight, told, wedged>> /\ armed' = armed \ {s}
         ELSE LET drop == (~err) \/ GiveUp(tries[s[1]]) IN
              IF drop /\ queue = <<>>
                THEN \* slicing the empty queue panics under pq.mu; the panic is swallowed
                     wedged' = TRUE /\ armed' = armed \ {s} /\ UNCHANGED <<queue, tries, pending, flight, told>>
                ELSE /\ queue' = IF drop THEN Tail(queue) ELSE queue
                     /\ told' = IF drop THEN [told EXCEPT ![s[1]] = Append(@, IF err THEN "failed" ELSE "ok")] ELSE told
                     /\ Drain(queue', tries, [pending EXCEPT ![s[1]] = FALSE], flight, armed \ {s}, FALSE)
                     /\ UNCHANGED wedged

\* the acknowledgement arrives while its handler is still registered ...
AckOK(s) == /\ s \in acks /\ connected /\ s \in armed
            /\ acks' = acks \ {s}
            /\ Callback(s, FALSE)
            /\ UNCHANGED <<next, outages, timeouts, delivered>>
\* ... or after it timed out ("ACK not found")
AckLate(s) == /\ s \in acks /\ connected /\ s \notin armed
              /\ acks' = acks \ {s}
              /\ UNCHANGED <<queue, tries, pending, next, connected, outages, timeouts, flight, armed, delivered, told, wedged>>
Timeout(s) == /\ s \in armed /\ timeouts < MaxTimeouts
              /\ timeouts' = timeouts + 1
              /\ Callback(s, TRUE)
              /\ UNCHANGED <<next, outages, acks, delivered>>

Disconnect == /\ connected /\ outages < MaxOutages
              /\ connected' = FALSE /\ outages' = outages + 1
              /\ flight' = <<>> /\ acks' = {}                   \* whatever was on the wire is gone
              /\ UNCHANGED <<queue, tries, pending, next, timeouts, armed, delivered, told, wedged>>
\* onConnect: drainQueue(true)
Reconnect == /\ ~connected /\ connected' = TRUE /\ ~wedged
             /\ Drain(queue, tries, pending, flight, armed, TRUE)
             /\ UNCHANGED <<queue, next, outages, timeouts, acks, delivered, told, wedged>>

Next == Emit \/ Disconnect \/ Reconnect
        \/ (flight # <<>> /\ Deliver(Head(flight)))
        \/ (\E s \in acks : AckOK(s) \/ AckLate(s))
        \/ (\E s \in armed : Timeout(s))
Spec == Init /\ [][Next]_vars

(***************************************************************************)
(* properties                                                              *)
(***************************************************************************)
Range(s) == {s[i] : i \in 1..Len(s)}
NeverWedged == ~wedged
\* the user's acknowledgement is called at most once per emit
ToldOnce == \A i \in Ids : Len(told[i]) <= 1
\* told "ok" only for what the server handled
OkMeansDelivered == \A i \in Ids : (told[i] # <<>> /\ told[i][1] = "ok") => i \in Range(delivered)
\* in order: a packet is first delivered only after every earlier one
FirstPos(i) == CHOOSE k \in 1..Len(delivered) : delivered[k] = i /\ \A j \in 1..(k - 1) : delivered[j] # i
InOrder == \A i, j \in Range(delivered) : i < j => FirstPos(i) < FirstPos(j)
\* the queue holds exactly the packets nobody was told about, in order: nothing is dropped silently
QueueIsUnsettled == /\ \A k \in 1..Len(queue) : told[queue[k]] = <<>>
                    /\ \A k \in 1..(Len(queue) - 1) : queue[k] < queue[k + 1]
                    /\ \A i \in 1..(next - 1) : told[i] = <<>> => i \in Range(queue)
\* time-outs alone never give up before Retries + 1 tries (reconnections add forced tries)
TriesBounded == \A i \in Ids : tries[i] <= Retries + 1 + outages
\* a packet is given up only after Retries + 1 tries
FailedOnlyAfterRetries == \A i \in Ids : (told[i] # <<>> /\ told[i][1] = "failed") => tries[i] > Retries
=============================================================================
