---------------------------- MODULE EioHeartbeat ----------------------------
(***************************************************************************)
(* Engine.IO heartbeat with explicit time (property C14):                  *)
(*   engine.io/server_socket.go pingPong: sleep PI; send PING; wait for    *)
(*        PONG or PT -> close(ping timeout)                                *)
(*   engine.io/client_socket.go handleTimeout: every PING re-arms a        *)
(*        watchdog of PI + PT -> close(ping timeout); handlePacket answers *)
(*        PING with PONG                                                   *)
(* The link is ok or silently black-holed (both directions, up only, down  *)
(* only) from some moment on.  Time advances in ticks; a timer that is due *)
(* fires before time moves on.  Delivery on a live link takes no time.     *)
(* Deviations: "NoRearm" (the client watchdog is not re-armed by a PING),  *)
(*             "PongIgnored" (the server does not see PONGs)               *)
(***************************************************************************)
EXTENDS Naturals, TLC

CONSTANTS PI, PT, MaxT, Modes, Dev

VARIABLES now, hole, mode, sState, sTimer, cTimer, sClosedAt, cClosedAt, sBeat, cBeat
vars == <<now, hole, mode, sState, sTimer, cTimer, sClosedAt, cClosedAt, sBeat, cBeat>>

Init == /\ now = 0 /\ hole = 0 /\ mode = "none" /\ sState = "sleep" /\ sTimer = PI /\ cTimer = PI + PT
        /\ sClosedAt = 0 /\ cClosedAt = 0 /\ sBeat = 0 /\ cBeat = 0

DownOK == hole = 0 \/ mode = "up"       \* server -> client still works
UpOK == hole = 0 \/ mode = "down"       \* client -> server still works
SOpen == sClosedAt = 0
COpen == cClosedAt = 0

Tick == /\ now < MaxT
        /\ (SOpen => now < sTimer) /\ (COpen => now < cTimer)
        /\ now' = now + 1
        /\ UNCHANGED <<hole, mode, sState, sTimer, cTimer, sClosedAt, cClosedAt, sBeat, cBeat>>

Blackhole(m) == /\ hole = 0 /\ now > 0 /\ hole' = now /\ mode' = m
                /\ UNCHANGED <<now, sState, sTimer, cTimer, sClosedAt, cClosedAt, sBeat, cBeat>>

\* the server's sleep ends: PING; on a live link the PONG is back at once
ServerPing ==
    /\ SOpen /\ sState = "sleep" /\ now = sTimer
    /\ LET pingArrives == DownOK /\ COpen
           pongArrives == pingArrives /\ UpOK /\ "PongIgnored" \notin Dev IN
         /\ IF pingArrives /\ "NoRearm" \notin Dev
              THEN cTimer' = now + PI + PT /\ cBeat' = now
              ELSE UNCHANGED <<cTimer, cBeat>>
         /\ IF pongArrives THEN sState' = "sleep" /\ sTimer' = now + PI /\ sBeat' = now
                           ELSE sState' = "await" /\ sTimer' = now + PT /\ UNCHANGED sBeat
    /\ UNCHANGED <<now, hole, mode, sClosedAt, cClosedAt>>

ServerTimeout == /\ SOpen /\ sState = "await" /\ now = sTimer
                 /\ sClosedAt' = now
                 /\ UNCHANGED <<now, hole, mode, sState, sTimer, cTimer, cClosedAt, sBeat, cBeat>>
ClientTimeout == /\ COpen /\ now = cTimer
                 /\ cClosedAt' = now
                 /\ UNCHANGED <<now, hole, mode, sState, sTimer, cTimer, sClosedAt, sBeat, cBeat>>

Next == Tick \/ (\E m \in Modes : Blackhole(m)) \/ ServerPing \/ ServerTimeout \/ ClientTimeout
Spec == Init /\ [][Next]_vars

\* a peer that keeps answering is never disconnected by the heartbeat
LiveNotKilled == hole = 0 => (SOpen /\ COpen)
\* heartbeat closes happen only on a dead link
OnlyWhenDead == (~SOpen \/ ~COpen) => hole > 0
\* each side notices within PI + PT of the last heartbeat it received ...
DetectedInTime == /\ (~SOpen => sClosedAt - sBeat <= PI + PT)
                  /\ (~COpen => cClosedAt - cBeat <= PI + PT)
\* ... and a link that is dead in both directions is closed on both sides PI + PT after it died
DeadDetected == (hole > 0 /\ mode = "both" /\ now > hole + PI + PT) => (~SOpen /\ ~COpen)
\* a one-way black hole is noticed by both sides eventually as well
OneWayDetected == (hole > 0 /\ now > hole + 2 * PI + PT) => (~SOpen /\ ~COpen)
=============================================================================
