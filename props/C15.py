"""C15 - client reconnection and offline emits (ClientManager.tla)."""
import os
import vcheck


def run(ctx):
    for cfg, exp in MC:
        ctx.mc("MCClientManager", "ClientManager_%s.cfg" % cfg, expect=exp, timeout=900)
    out, res = ctx.go_test("c15", "^TestC15Backoff$", timeout=600, name="backoff")
    if res is not None:
        ctx.validate("ClientManagerTrace", "ClientManagerTrace.cfg", os.path.join(out, "trace.ndjson"), sigprefix="c15:backoff", timeout=1200)
    out, res = ctx.go_test("c15", "^TestC15$", timeout=1700)
    if res is None:
        return
    ctx.validate("ClientManagerTrace", "ClientManagerTrace.cfg", os.path.join(out, "trace.ndjson"), sigprefix="c15", timeout=1200)
    ctx.assumptions += [
        "link outages are produced by a TCP proxy in front of a real server: refused = accepted and closed at once, black-holed = bytes swallowed in both directions",
        "delivery is observed in the server's handlers and at the server's Engine.IO socket (hook eio.s.recv); the harness cuts the link only when nothing is in flight, so every non-volatile event is owed",
        "the order of handler entries is not required here (recorded finding K3 of C02); the order of arrival at the server is",
    ]


MC = [("ok", "ok"), ("ok_l1", "ok"), ("ok_l3", "ok"), ("ok_nolimit", "ok"),
      # non-vacuity: the behaviours the code had before the repairs (DESIGN 7) violate the properties
      ("dev_SendWhilePending", "violates:VolatileDropped"), ("dev_FlushWindow", "violates:EmitOrder"), ("dev_FlushAbort", "violates:AtRest"),
      ("dev_OffByOne", "violates:AttemptsBounded"), ("dev_EarlyCloseLost", "violates:AtRest"),
      # observation O2 (model only): Disconnect + Connect inside a reconnect loop can leave a stale attempt count
      ("close", "violates:AtRest")]

META = {
    "text": "ClientManager.tla models the Manager's connect / reconnect goroutines under connectMu, the back-off counter, the socket's state and offline buffer, the server's admission of the namespace and the environment taking the link down and up; TLC checks attempt accounting, the single reconnect_failed, exactly-once in-order delivery of what was emitted offline, dropping of volatile events and (under fairness) that the client gets back in once the link stays up. The real client is driven through outage patterns x limits 0..5 x transports x emit mixes behind a fault proxy; ClientManagerTrace.tla replays every hook record (state writes by site, back-off steps, chosen delays and measured sleeps, send/park/drop/flush decisions, arrivals at the server) against those actions. A further deterministic schedule has the user disconnect and connect again inside a back-off sleep (the old cycle must end, the new one counts from 1 and gives up once).",
    "note": "Trusted: the proxy as the model of an outage; time bounds use the timestamps the hooks take before and after time.Sleep.",
    "technique": "TLA+/TLC model checking + trace validation",
    "design_ref": "DESIGN.md 4.11, 5 (C15)",
}
