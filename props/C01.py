"""C01 - event pipeline (Delivery.tla)."""
import os
import vcheck


def run(ctx):
    for cfg, exp in [("ok", "ok"), ("ok2", "ok"), ("code", "ok"), ("dev_reorder", "violates:HandlerOrderPerEmitter"),
                     ("dev_split", "violates:FramesContiguous"), ("dev_lifo", "violates:WireOrderPerEmitter")]:
        ctx.mc("MCDelivery", "Delivery_%s.cfg" % cfg, expect=exp)
    out, res = ctx.go_test("c01", "^TestC01$", timeout=1400)
    if res is None:
        return
    ctx.validate("DeliveryTrace", "DeliveryTrace.cfg", os.path.join(out, "trace.ndjson"), sigprefix="delivery", timeout=1200,
                 ignore_deviations=("K3",))  # handler-entry order is C02's subject, not C01's
    ctx.assumptions += [
        "argument equality is computed by the handler itself (deep comparison with the value regenerated from the tag) and enters the trace as the flag ok; the specification requires it",
        "FIFO reception is required on settled transports only (scenarios with an upgrade emit after it completed)",
    ]


META = {
    "text": "TLC checks Delivery.tla (emit -> all frames appended in one critical section -> single sender draining batches -> FIFO wire -> reassembly -> one dispatch goroutine per packet -> handler entry) for all interleavings of 2 emitters x 2 packets with attachments: contiguous frames, wire and finish order, exactly-once entry; the deviations of appending frame by frame, reversing a batch and dispatch reordering must violate. Real scenarios (each transport incl. after an upgrade x state recovery off/on x 1-3 clients, goroutines emitting six argument shapes with 0-4 attachments and payload sizes through 32 KiB / 64 KiB up to 300 kB in both directions, decoy handlers under look-alike names) are validated by DeliveryTrace.tla from hooks under the queue mutex, the sender, the peer's Engine.IO receive path and handler-entry records carrying the argument comparison. One scenario runs on polling against a server with MaxBufferSize 300 and four 100-byte attachments per packet, so that one write batch is split into three payloads.",
    "note": "Trusted: hooks under packetQueue.mu; the handler's own deep comparison; tag extraction from frames.",
    "technique": "TLA+/TLC model checking + trace validation of real tagged traffic",
    "design_ref": "DESIGN.md 4.10, 5 (C01)",
}
