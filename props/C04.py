"""C04 - room membership and broadcast targets (Rooms.tla)."""
import os
import vcheck


def run(ctx):
    ctx.mc("Rooms", "Rooms_conc.cfg", workers=8)
    out, res = ctx.go_test("c04", "^TestC04$")
    if res is None:
        return
    ctx.validate("RoomsTrace", "RoomsTrace.cfg", os.path.join(out, "trace.ndjson"), sigprefix="rooms", timeout=1200)
    ctx.assumptions += [
        "membership changes concurrent with a broadcast are judged with interval semantics (member of a target room and of no excluded room throughout => reached once; never matching a target room => not reached)",
        "recipients are observed at the adapter's callback (hook apply.cb) and at the socket store (SendBuffers), not at the clients",
    ]


META = {
    "text": "TLC checks Rooms.tla (two inverse indexes, apply() with its except snapshot, dedup set and unlock windows, concurrent join/leave/connect/disconnect): Inverse, ClosedHasNoRooms, OnceEach and interval semantics at the end of every call. Every membership matrix of 3 sockets x 3 rooms x every (T,E) is run on the real adapters and judged by the specification's Recipients; seeded histories on a real server and gated placements inside apply()'s window and Join's read-then-call window are validated as traces (hooks under the adapter / store mutexes) with the same interval semantics, NoEcho for socket-originated broadcasts and Rooms() read-backs.",
    "note": "Trusted: hooks under a.mu and the socket store's mutex; one namespace per scenario.",
    "technique": "TLA+/TLC model checking + exhaustive vector replay judged in TLA+ + trace validation with gated windows",
    "design_ref": "DESIGN.md 4.4, 5 (C04)",
}
