"""C07 - transport upgrade (EioSession.tla)."""
import os
import vcheck


def run(ctx):
    ctx.mc("EioSession", "EioSession_ok.cfg")
    ctx.mc("EioSession", "EioSession_fail.cfg")
    ctx.mc("EioSession", "EioSession_dev_noresend.cfg", expect="violates:NothingLost")
    ctx.mc("EioSession", "EioSession_dev_dropinflight.cfg", expect="violates:NothingLost")
    ctx.mc("EioSession", "EioSession_dev_resendmsgsonly.cfg", expect="violates:HeartbeatNotLost")
    ctx.mc("EioSession", "EioSession_big.cfg" if ctx.quick else "EioSession_huge.cfg", workers=14)
    out, res = ctx.go_test("c07", "^TestC07$")
    if res is None:
        return
    ctx.validate("EioSessionTrace", "EioSessionTrace.cfg", os.path.join(out, "trace.ndjson"), sigprefix="c07")
    ctx.assumptions += [
        "the failure clause is scoped to failures before the client's commit point (receipt of PONG probe); after it the protocol has no way back",
        "message identity is the harness's tag in the payload; control packets are not tracked",
    ]


META = {
    "text": "TLC checks EioSession.tla (poll queue, pending and in-flight polls, candidate probe, both swaps under their write locks, asynchronous NOOPs, re-send of queued packets; heartbeat PINGs and PONGs travelling in the same streams; 2-3 messages and 1-2 heartbeats each way, one candidate failure, thorough 3/4 messages and 3 heartbeats = 4.0 M distinct states): at most once, nothing lost at quiescence, failed upgrade keeps polling, both sides agree, every heartbeat sent is answered; three deviations (no re-send, in-flight poll dropped, re-send of MESSAGE packets only) must violate. Real sessions carry numbered text/binary traffic both ways across real upgrades, with bursts released exactly while the server or the client stands before its swap (gates), with refused and stalled candidates, and on settled transports; hook records (send under the read lock with the transport used, receive, swap with the re-sent packets) are validated by EioSessionTrace.tla: every reception consumes exactly one pending send, nothing pending at quiescence, no close, final transports as expected. Further modes: six goroutines sending without pause across the client's swap, and Sends issued while the client is held between its swap and the UPGRADE packet (yield point under the write lock): they must wait and leave after UPGRADE.",
    "note": "Trusted: hooks under transportMu; loopback httptest server; WebTransport not exercised in the quick tier.",
    "technique": "TLA+/TLC model checking + trace validation of real upgrades with gated swap points",
    "design_ref": "DESIGN.md 4.7, 5 (C07)",
}
