"""C16 - concurrent use of the public API: deadlock freedom and no mutex left held (Locks.tla)."""
import json
import os
import sys
import vcheck

sys.path.insert(0, os.path.join(os.path.dirname(__file__), "..", "lib"))
import lockprogs  # noqa: E402


def run(ctx):
    samples = os.path.join(vcheck.VERIF, "spec", "mc", "locks_samples")
    # non-vacuity of the lock semantics: an order inversion and a recursive read lock with a writer deadlock, a gated inversion does not
    for name, exp in [("inversion", "violates:NoDeadlock"), ("recursive_read", "violates:NoDeadlock"), ("gated", "ok")]:
        ctx.lockmc(os.path.join(samples, name + ".json"), 2, expect=exp, label="sample " + name)
    out, res = ctx.go_test("c16", "^TestC16$", timeout=1700, overlay=True)
    if res is None:
        return
    progs, problems, stats = lockprogs.extract(os.path.join(out, "locks.ndjson"))
    if stats["lock_events"] < 1000:
        ctx.undecided.append("the run recorded %d lock events: the instrumented internal/sync was not built in" % stats["lock_events"])
    for k in ("lock_events", "stretches", "nested", "instances", "sites", "max_depth"):
        ctx.counters["locks_" + k] = stats[k]
    ctx.counters["lock_programs"] = len(progs)
    for pr in problems:
        if pr["kind"] == "left-held":
            ctx.violation("c16:left-held:" + pr["site"], "scenario %(scenario)s: a mutex locked at %(site)s (%(mode)s) was still held when the program had ended and everything was closed" % pr, pr)
        elif pr["kind"] == "deadlock-observed":
            ctx.violation("c16:deadlock-observed:" + "+".join(sorted(c["waits_at"] for c in pr["cycle"])),
                          "scenario %s: goroutines waiting for each other's mutexes after everything had ended: %s" % (pr["scenario"], pr["cycle"]), pr)
        elif pr["kind"] == "still-waiting":
            ctx.violation("c16:still-waiting:" + pr["site"], "scenario %(scenario)s: a goroutine was still waiting for the mutex at %(site)s when everything had ended (held since %(holder_sites)s)" % pr, pr)
    pj = os.path.join(out, "progs.json")
    json.dump([{"scen": p["scen"], "ops": p["ops"]} for p in progs], open(pj, "w"))
    if progs:
        got, chosen, tlcout = ctx.lockmc(pj, 2, expect="ok", timeout=1500, label="recorded programs")
        if got.startswith("violates") and chosen:
            inv = [progs[i - 1] for i in chosen if i > 0]
            desc = " || ".join("goroutine %s: %s" % (p["g"], " ".join("%s@%s" % (o["op"], s) for o, s in zip(p["ops"], p["sites"]))) for p in inv)
            sig = "c16:deadlock:" + "+".join(sorted({s for p in inv for s in p["sites"]}))[:200]
            ctx.violation(sig, "Locks.tla: these lock programs, recorded from the library in scenario %s, deadlock in some interleaving: %s" % (inv[0]["scen"], desc[:1500]),
                          {"programs": inv, "tlc": tlcout[-3000:]})
    if progs and not ctx.quick:
        # triples, scenario by scenario (the combinations are enumerated inside TLC: keep each input small)
        scens = sorted({p["scen"] for p in progs})[:6]
        for sc in scens:
            sub = [p for p in progs if p["scen"] == sc]
            if len(sub) > 260:
                continue
            pj3 = os.path.join(out, "progs-s%d.json" % sc)
            json.dump([{"scen": p["scen"], "ops": p["ops"]} for p in sub], open(pj3, "w"))
            got, chosen, tlcout = ctx.lockmc(pj3, 3, expect="ok", timeout=900, label="scenario %d, triples" % sc)
            if got.startswith("violates") and chosen:
                inv = [sub[i - 1] for i in chosen if i > 0]
                desc = " || ".join("goroutine %s: %s" % (p["g"], " ".join("%s@%s" % (o["op"], s) for o, s in zip(p["ops"], p["sites"]))) for p in inv)
                sig = "c16:deadlock:" + "+".join(sorted({s for p in inv for s in p["sites"]}))[:200]
                ctx.violation(sig, "Locks.tla: these three lock programs, recorded in scenario %s, deadlock in some interleaving: %s" % (sc, desc[:1500]),
                              {"programs": inv, "tlc": tlcout[-3000:]})
    # the client's retry queue (RetryQueue.tla): found to leave its mutex locked (F21); kept under this property
    for cfg, exp in [("ok", "ok"), ("ok_r2", "ok"), ("dev_noheadcheck", "violates:NeverWedged"), ("dev_offbyone", "violates:FailedOnlyAfterRetries")]:
        ctx.mc("RetryQueue", "RetryQueue_%s.cfg" % cfg, expect=exp, timeout=600)
    rout, rres = ctx.go_test("c16", "^TestRetryQueue$", timeout=1500, name="retry")
    if rres is not None:
        ctx.validate("RetryQueueTrace", "RetryQueueTrace.cfg", os.path.join(rout, "trace.ndjson"), sigprefix="c16:retryqueue", timeout=900)
    # the same generated programs under the race detector (side oracle: not decided by the specification)
    ctx.go_test("c16", "^TestC16$", timeout=1700, race=True, name="race", overlay=True)
    ctx.assumptions += [
        "the lock programs are what the goroutines did in the recorded runs; TLC explores every interleaving of each pair, assuming a program's sequence of lock calls does not itself depend on the interleaving",
        "two programs of one scenario are assumed able to run at the same time (no happens-before pruning): a reported pair is a potential deadlock",
        "channel waits, WaitGroups and sync.Once are not modelled; a hang through them is seen only by the watchdog",
        "data races are looked for with the race detector on the same programs; that clause is not decided by the specification",
    ]


META = {
    "text": "Every mutex of the library is instrumented (an instrumented copy of internal/sync/sync.go applied with go's -overlay at build time, reporting through internal/vhook; /repo's file is untouched); randomly generated concurrent programs (2..16 goroutines, 34 kinds of operations over server, namespace, socket, manager and adapter, operations issued from event, acknowledgement, connection and disconnect handlers too, GOMAXPROCS 1/2/4/16, injected yields) run against a real server with real clients under a watchdog. The recorded Lock/RLock/Unlock/RUnlock sequences of every goroutine stretch that held two locks at once become the programs of Locks.tla; TLC runs every pair of programs of a scenario (also a program against itself) through all interleavings under sync.Mutex / sync.RWMutex semantics with writer preference and checks that somebody can always move (no deadlock), and the trace itself is checked for mutexes still held or awaited after everything ended. Sample inputs (order inversion, recursive read lock) show the model is not vacuous. The client's retry queue (Retries > 0), where a mutex left locked was found (F21), has a specification of its own (RetryQueue.tla: at-least-once, in order, one user acknowledgement, never wedged) with MC, deviations and trace validation of scripted and random outage / slow-ack / mute-server scenarios. The data-race clause is outside what a TLA+ specification decides: the same programs also run under the race detector as a side oracle. Every second program runs on a server with connection state recovery, and three operation kinds persist and restore sessions of the harness's own around the 15 ms window, so that every exit of RestoreSession is taken.",
    "note": "Partial: deadlocks through channels / WaitGroups are covered only by the watchdog; potential deadlocks are reported without happens-before pruning; data races: race detector only.",
    "technique": "TLA+/TLC model checking of lock programs recorded from the implementation (trace -> specification input) + watchdog; race detector as side oracle",
    "design_ref": "DESIGN.md 4.12, 5 (C16)",
}
