"""C13 - size limits and client write batching (Batcher.tla)."""
import os
import vcheck


def run(ctx):
    ctx.mc("Batcher", "Batcher_q.cfg" if ctx.quick else "Batcher_t.cfg", workers=16, timeout=1500)
    out, res = ctx.go_test("c13", "^TestC13$")
    if res is None:
        return
    ctx.validate("BatcherTrace", "BatcherTrace.cfg", os.path.join(out, "trace.ndjson"), sigprefix="c13")
    ctx.assumptions += [
        "a message of `size` data bytes must be accepted when size+1 <= limit and refused when size > limit; in between either outcome is accepted",
        "bytes swallowed from an over-limit undeclared body are measured at the sending side (bytes the HTTP client managed to write), slack 4 MiB for socket buffers",
    ]


META = {
    "text": "TLC checks that the specification's greedy Split satisfies the batching contract (no loss/dup/reorder, no empty batch, no multi-packet batch above maxPayload) on every vector of <=5 (thorough 6) packet sizes x maxPayload 1..20. The same vectors go through the real Engine.IO client write path (exported wrapper, recording transport) and each result is judged by the contract in TLA+. The limit table (tiny/default/disabled x polling Content-Length / polling chunked / websocket x sizes around each limit and around 32 KiB, both directions) is produced on a real server and judged by the specification's LimitOK.",
    "note": "Trusted: EncodedLen as the packet size measure (its correctness is C11's subject); loopback HTTP/WebSocket peers of the harness.",
    "technique": "TLA+/TLC exhaustive check of the specification function + vector replay of the real code judged in TLA+",
    "design_ref": "DESIGN.md 4.11, 5 (C13)",
}
