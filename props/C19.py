"""C19 - queued packets are sent without waiting for unrelated traffic (WakeQueue.tla)."""
import json, os, random
import vcheck

CONTROLLABLE = {"add", "append", "signal", "get1", "park", "drainchk", "close", "reset"}

GEN = [  # cfg, kind, closer mode, polls per consumer (poll kind), cap quick, cap thorough
    ("poll_1c2p", "poll", "none", 2, None, None),
    ("poll_2c2p", "poll", "none", 1, 150, None),
    ("packet_2p", "packet", "none", 2, 120, None),
    ("packet_2p_reset", "packet", "reset", 2, 60, 600),
    ("packet_2p_close", "packet", "close", 2, 60, 600),
]
SIM = {"poll_2c3p": 400, "packet_2p_close": 1500, "packet_2p_reset": 1500}
GEN_THOROUGH = [("poll_2c3p", "poll", "none", 2, None, 1500)]


def run(ctx):
    # 1. design level: the specification satisfies C19, and the named deviations break it
    for cfg, exp in [("poll_safety", "ok"), ("poll_live", "ok"), ("packet_close", "ok"), ("packet_reset", "ok"),
                     ("poll_dev_unbuffered", "violates:NoStranded"), ("poll_dev_stale", "violates:EmptyOnlyIfEmpty"),
                     ("packet_dev_sigfirst", "violates:NoStranded")]:
        ctx.mc("WakeQueue", "WakeQueue_%s.cfg" % cfg, expect=exp)
    # 2. schedules from the specification
    scripts = []
    gens = GEN + ([] if ctx.quick else GEN_THOROUGH)
    for cfg, kind, mode, polls, capq, capt in gens:
        if cfg in SIM:
            n = SIM[cfg] if ctx.quick else 10 * SIM[cfg]
            hs = ctx.gen("WakeQueueGen", "WakeQueueGen_%s.cfg" % cfg, simulate={"num": n, "depth": 60})
        else:
            hs = ctx.gen("WakeQueueGen", "WakeQueueGen_%s.cfg" % cfg)
        seen, proj = set(), []
        for h in hs:
            p = [s for s in h if s[1] in CONTROLLABLE]
            k = json.dumps(p)
            if k not in seen:
                seen.add(k)
                proj.append(p)
        cap = capq if ctx.quick else capt
        total = len(proj)
        if cap and len(proj) > cap:
            proj = random.Random(ctx.seed).sample(proj, cap)
        ctx.counters["schedules_%s" % cfg] = len(proj)
        ctx.counters["schedules_%s_available" % cfg] = total
        for p in proj:
            scripts.append({"cfg": cfg, "kind": kind, "mode": mode, "polls": polls, "steps": p})
    sf = os.path.join(ctx.scratch, "scripts.json")
    json.dump(scripts, open(sf, "w"))
    # 3. force them on the real queues, plus HTTP placements and stress
    out, res = ctx.go_test("c19", "^TestC19$", env={"VERIF_SCRIPTS": sf})
    if res is None:
        return
    # 4. what the real code did must be a behaviour of the specification
    ctx.validate("WakeQueueTrace", "WakeQueueTrace_poll.cfg", os.path.join(out, "trace_poll.ndjson"), sigprefix="trace-poll")
    ctx.validate("WakeQueueTrace", "WakeQueueTrace_packet.cfg", os.path.join(out, "trace_packet.ndjson"), sigprefix="trace-packet")
    ctx.assumptions += [
        "goroutine wait states are read from runtime.Stack; a consumer counts as parked when it is blocked in a select",
        "schedules are forced only at the yield points (between emptiness check and wait; between append and signal); finer interleavings are reached by the stress runs only by chance",
    ]

META = {
    "text": "TLC checks WakeQueue.tla exhaustively (all interleavings of <=3 producers, <=2 consumers x 2 polls, closer; safety NoStranded/EmptyOnlyIfEmpty/FifoExactlyOnce and liveness EventuallyTaken under weak fairness with time-outs disabled; three named deviations must violate). The maximal behaviours of the same specification are then forced on the real pollQueue/packetQueue through the yield points, real HTTP polls are placed in the check-then-wait window, and every run is validated as a behaviour of the specification. Right level: the property is about all schedules of a small hand-off protocol.",
    "note": "Trusted: hooks log under the queue mutex; goroutine wait states from runtime.Stack; schedules are forced only at the two yield points per queue; bounded constants (see evidence mc_runs).",
    "technique": "TLA+/TLC model checking + TLC-generated schedule replay with gates + trace validation",
    "design_ref": "DESIGN.md 4.1, 5 (C19)",
}
