"""C09 - Socket.IO codec (SioCodec.tla)."""
import os
import vcheck


def run(ctx):
    ctx.mc("SioCodec", "SioCodec.cfg", workers=4)
    out, res = ctx.go_test("c09", "^TestC09$", timeout=1400)
    if res is None:
        return
    ctx.validate("SioCodecTrace", "SioCodecTrace.cfg", os.path.join(out, "trace.ndjson"), sigprefix="c09", timeout=1200)
    ctx.assumptions += [
        "JSON text of scalars is not specified (serializer's business); the JSON part is compared as a parsed tree",
        "decoding is checked with types matching the tree (structs, typed slices, direct map values); generic []any containers with nested Binary leaves are encode-checked only",
    ]


META = {
    "text": "SioCodec.tla defines the v5 header as a function over byte sequences (type digit, attachment count and dash for binary types only, namespace and comma unless '/', ack id digits), its reference reader, and placeholder numbering over uniform argument trees; TLC checks header round trip on a bounded domain and the receiver machine. Seeded abstract packets (types, unusual namespaces, ids 0..2^64-1, names with quotes/backslashes/unicode, trees to depth 3 with Binary leaves) are materialized as generic values, typed structs/slices and pointers, encoded twice by the real parser, decoded by a fresh parser with matching types, and judged in TLA+: exact header bytes, one text frame + n binary frames, placeholders exactly 0..n-1 in attachment order restoring the original tree, decoded = original, second encoding identical, input unchanged.",
    "note": "Trusted: the harness's canonical tree of Go values and of the JSON part (encoding/json with UseNumber).",
    "technique": "TLA+ functional specification checked by TLC + vector replay of the real parser judged in TLA+",
    "design_ref": "DESIGN.md 4.11, 5 (C09)",
}
