"""C17 - Engine.IO admission (EioServer.tla)."""
import os
import vcheck


def run(ctx):
    ctx.mc("EioServer", "EioServer_race.cfg")
    ctx.mc("EioServer", "EioServer_dev_norecheck.cfg", expect="violates:ClosedAdmitsNone")
    out, res = ctx.go_test("c17", "^TestC17$")
    if res is None:
        return
    ctx.validate("EioServerTrace", "EioServerTrace.cfg", os.path.join(out, "trace.ndjson"), sigprefix="c17")
    ctx.assumptions += [
        "requests are plain HTTP: a websocket transport name without an upgrade handshake must fail with some status >= 400 (the websocket library chooses it)",
        "a pending long poll on a live session counts as the `poll` effect",
    ]


META = {
    "text": "The decision table of ServeHTTP is a TLA+ function (Decide); TLC checks its theorems over the whole matrix (errors create nothing, new session only for GET + EIO 4 + polling + no sid + not closed) and the handshake/Close race at step granularity (ClosedAdmitsNone; the NoRecheck deviation must violate). Every cell of the request matrix (3840 requests) is sent to a fresh real server and status, error code, sessions announced, store delta, OPEN packet and disturbance of the live session are compared with Decide in TLA+; handshakes are parked inside the Authenticator while Close runs; 10^5 (thorough 10^6) generated ids must be distinct.",
    "note": "Trusted: plain net/http client of the harness; store size read through an exported accessor.",
    "technique": "TLA+ decision table + TLC race model + vector replay of the full request matrix judged in TLA+",
    "design_ref": "DESIGN.md 4.8, 5 (C17)",
}
