"""C05 - server life cycle (ServerConn.tla)."""
import os
import vcheck


def run(ctx):
    ctx.mc("MCServerConn", "ServerConn_one.cfg")
    ctx.mc("MCServerConn", "ServerConn_two.cfg", timeout=600)
    ctx.mc("MCServerConn", "ServerConn_dev_norecheck.cfg", expect="violates:ExactlyOneDisconnect")
    out, res = ctx.go_test("lifecycle", "^TestC05$", timeout=1400)
    if res is None:
        return
    ctx.validate("ServerConnTrace", "ServerConnTrace.cfg", os.path.join(out, "trace.ndjson"), sigprefix="c05", max_reject=20)
    ctx.assumptions += [
        "handlers are attached in a final, always-accepting namespace middleware (connection handlers run after the CONNECT reply and race with the client's first events)",
        "disconnect reasons are checked against the set allowed for the scenario's cause (DESIGN appendix C)",
    ]


META = {
    "text": "TLC checks ServerConn.tla (routing by namespace, admission steps, connection and socket close steps at critical-section granularity; 2 connections x 2 namespaces): Isolation, exactly-one disconnect, no residue, attach only after accept. Multiplexed sessions over sets of look-alike namespaces (prefixes of one another, '' vs '/') with seeded interleavings of emit / ack / broadcast / disconnect run on a real server; every handler record must match an in-flight packet of the same namespace, acks and broadcasts must not cross, a namespace disconnect must leave the others connected, and packets for an unjoined namespace must close the connection without any handler record - judged by ServerConnTrace.tla over hook + handler records.",
    "note": "Trusted: hooks under the store mutexes; Go client and raw long-polling client of the harness.",
    "technique": "TLA+/TLC model checking + trace validation of real multiplexed sessions",
    "design_ref": "DESIGN.md 4.6, 5 (C05)",
}
