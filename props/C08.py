"""C08 - connection state recovery (Recovery.tla)."""
import os
import vcheck


def run(ctx):
    ctx.mc("Recovery", "Recovery_one.cfg", workers=16, timeout=300)
    if not ctx.quick:
        ctx.mc("Recovery", "Recovery_two.cfg", workers=16, timeout=900)
    ctx.mc("Recovery", "Recovery_dev_clean.cfg", expect="violates:CleanOnlyExpired")
    ctx.mc("Recovery", "Recovery_dev_attach.cfg", expect="violates:NoGapNoDup")
    out, res = ctx.go_test("c08", "^TestC08$")
    if res is None:
        return
    ctx.validate("RecoveryTrace", "RecoveryTrace.cfg", os.path.join(out, "trace.ndjson"), sigprefix="recovery", max_reject=30)
    ctx.assumptions += [
        "times are logged in microseconds under the adapter's mutex; comparisons with the window accept both outcomes within the tolerance given in each scenario's reset record (6-10 ms)",
        "a packet emitted while the client was connected but before it joined the matching room may be replayed (reference algorithm filters by the rooms at disconnect time); accepted as neither gap nor duplicate",
        "end to end, the packets addressed to the client are computed by the harness from the broadcasts it issued and the log ids the hook reported on the same goroutine",
    ]


META = {
    "text": "TLC checks Recovery.tla (packet log, sessions, window, clean-up passes, restore verdict and missed list, reconnection on both sides of the window, two clients on one log): no gap, no duplicate, emission order, fresh sessions marked, identity kept, no entry dropped before it expired; the repository's former clean-up rule and the two-step restore/attach of namespace.add must violate. Hook records of the real session-aware adapter (seeded histories, 9 ms cleaner) are validated against the specification's log and session table with explicit time tolerances; full client sessions (raw protocol client disconnecting at every point k, reconnecting inside/outside the window, unknown offset/pid; Go client) are judged by the specification's end-to-end predicate. Every third adapter history runs without a cleaner (an expired session is still stored when it is asked for, as with the public one-minute cleaner); a watchdog turns a library goroutine that has waited a minute for a mutex into a violation instead of a driver time-out.",
    "note": "Trusted: hook times under a.mu; raw protocol client of the harness (long-polling); tolerance intervals.",
    "technique": "TLA+/TLC model checking + trace validation of the real adapter with time tolerances + end-to-end sessions judged in TLA+",
    "design_ref": "DESIGN.md 4.5, 5 (C08)",
}
