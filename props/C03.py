"""C03 - acknowledgements (Acks.tla)."""
import json, os, random
import vcheck

CONTROLLABLE = None  # the driver interprets every step (waits for its effect)


def run(ctx):
    for cfg, exp in [("timeout", "ok"), ("notimeout", "ok"), ("three", "ok"),
                     ("dev_nocalled", "violates:AtMostOnce"), ("dev_nodelete", "violates:AtMostOnce"),
                     ("dev_purgecrash", "violates:NoLockLeft"), ("dev_purgecrash_live", "violates:temporal")]:
        if cfg == "three" and ctx.quick:
            continue
        ctx.mc("Acks", "Acks_%s.cfg" % cfg, expect=exp)
    hs = ctx.gen("AcksGen", "AcksGen_one.cfg")
    seen, scripts = set(), []
    for h in hs:
        k = json.dumps(h)
        if k not in seen:
            seen.add(k)
            scripts.append(h)
    ctx.counters["schedules_available"] = len(scripts)
    cap = ctx.pick(24, 97)
    if len(scripts) > cap:
        scripts = random.Random(ctx.seed).sample(scripts, cap)
    if not ctx.quick:
        hs2 = ctx.gen("AcksGen", "AcksGen_two.cfg", simulate={"num": 60, "depth": 40})
        scripts += hs2[:60]
    sf = os.path.join(ctx.scratch, "scripts.json")
    json.dump(scripts, open(sf, "w"))
    out, res = ctx.go_test("c03", "^TestC03$", env={"VERIF_SCRIPTS": sf})
    if res is None:
        return
    ctx.validate("AcksTrace", "AcksTrace.cfg", os.path.join(out, "trace.ndjson"), sigprefix="acks")
    ctx.assumptions += [
        "the reply value is compared by the user callback itself (ok flag); the specification requires ok",
        "interleavings are forced at the three yield points (before h.mu on either path, before the purge); the time-out itself is real time (25-80 ms)",
    ]


META = {
    "text": "TLC checks Acks.tla (reply path vs timer goroutine per ack id, offline frames, hostile duplicate acks): callback at most once, exactly once with a time-out (liveness under weak fairness), right outcome, exact purge, no mutex left held; three named deviations must violate. Every interleaving of the two paths for one id (TLC behaviours) is forced on real client->server and server->client emits through gates at the lock acquisitions; offline-buffer, many-outstanding and mid-flight-disconnect scenarios run on real sockets; all hook records (under acksMu / h.mu / sendBufferMu) plus the user callback's own records are validated as a behaviour of the specification.",
    "note": "Trusted: hooks under the named mutexes; binding of library ack ids to harness emit numbers through the emitting goroutine; timers are real time.",
    "technique": "TLA+/TLC model checking + TLC-generated schedule replay with gates + trace validation",
    "design_ref": "DESIGN.md 4.3, 5 (C03)",
}
