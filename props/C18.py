"""C18 - handler registries (Handlers.tla)."""
import os
import vcheck


def run(ctx):
    ctx.mc("Handlers", "Handlers_seq.cfg")
    if not ctx.quick:
        ctx.mc("Handlers", "Handlers_one.cfg", timeout=1200)
    out, res = ctx.go_test("c18", "^TestC18$")
    if res is None:
        return
    ctx.validate("HandlersTrace", "HandlersTrace.cfg", os.path.join(out, "trace.ndjson"), sigprefix="handlers")
    ctx.assumptions += [
        "handler identity is the function's code pointer (what OffEvent compares); closures of one literal are indistinguishable (DESIGN K5)",
        "state x operation enumeration is exhaustive only within the bounds recorded in counters; hidden state (slice aliasing) is reached by seeded random sequences",
    ]


META = {
    "text": "TLC checks Handlers.tla for all operation sequences (On/Once/OnSub/Off/OffAll/Fire, duplicates, multi-handler Off) with ticketed registrations: Once at most once, On every time, Off exact, nothing disabled. Every operation is then applied to the real registries (raw stores and through the public Namespace API) in every small state, and {pre, op, post, result} is judged by the specification's reference operators; concurrent runs are validated as linearised traces from hooks under the store mutex; racing occurrences are run end to end.",
    "note": "Trusted: accessor read-backs under the store mutex; code-pointer identity; bounds in counters.",
    "technique": "TLA+/TLC model checking + vector replay against specification operators + trace validation of concurrent runs",
    "design_ref": "DESIGN.md 4.2, 5 (C18)",
}
