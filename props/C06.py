"""C06 - server life cycle (ServerConn.tla)."""
import os
import vcheck


def run(ctx):
    ctx.mc("MCServerConn", "ServerConn_one.cfg")
    ctx.mc("MCServerConn", "ServerConn_two.cfg", timeout=600)
    ctx.mc("MCServerConn", "ServerConn_dev_norecheck.cfg", expect="violates:ExactlyOneDisconnect")
    out, res = ctx.go_test("lifecycle", "^TestC06$", timeout=1400)
    if res is None:
        return
    ctx.validate("ServerConnTrace", "ServerConnTrace.cfg", os.path.join(out, "trace.ndjson"), sigprefix="c06", max_reject=20)
    ctx.assumptions += [
        "handlers are attached in a final, always-accepting namespace middleware (connection handlers run after the CONNECT reply and race with the client's first events)",
        "disconnect reasons are checked against the set allowed for the scenario's cause (DESIGN appendix C)",
    ]


LEVEL = "fault_enumeration"
META = {
    "level": "fault_enumeration",
    "text": "TLC checks ServerConn.tla for every interleaving of admission and close steps (ExactlyOneDisconnect, NoResidue; the NoRecheck deviation - the code before fix F11 - must violate). On a real server every termination cause (client close, raw CLOSE, Disconnect(true/false), client namespace disconnect, garbage, packet for an unjoined namespace, second CONNECT, server close, TCP cut, ping timeout) is produced at each phase (idle, burst, inside a middleware, before CONNECT, during the upgrade) and the websocket stream is cut after every k-th byte of a scripted session in both directions; after each run the trace (hook records + handler records + residue snapshot through the public API + HTTP probe of the old session id) must follow ServerConnTrace.tla: close body once, disconnect handlers exactly once with an allowed reason, nothing left in namespace, rooms, connection store or Engine.IO store, no event after disconnect. The connection handlers join and leave rooms (on the namespaces other than '/' every room, the socket's own included) and the quiescence record carries the number of keys and memberships left in both indexes of every adapter (guarded export), which the trace specification requires to be 0.",
    "note": "Trusted: byte-cutting TCP proxy of the harness; allowed-reason table read off the code; 1 s ping settings for the ping-timeout case.",
    "technique": "TLA+/TLC model checking + fault enumeration (cause x phase x cut point) with trace validation",
    "design_ref": "DESIGN.md 4.6, 5 (C06)",
}
