"""C12 - server life cycle (ServerConn.tla)."""
import os
import vcheck


def run(ctx):
    ctx.mc("MCServerConn", "ServerConn_one.cfg")
    ctx.mc("MCServerConn", "ServerConn_two.cfg", timeout=600)
    ctx.mc("MCServerConn", "ServerConn_dev_norecheck.cfg", expect="violates:ExactlyOneDisconnect")
    out, res = ctx.go_test("lifecycle", "^TestC12$", timeout=1400)
    if res is None:
        return
    ctx.validate("ServerConnTrace", "ServerConnTrace.cfg", os.path.join(out, "trace.ndjson"), sigprefix="c12", max_reject=20)
    ctx.assumptions += [
        "handlers are attached in a final, always-accepting namespace middleware (connection handlers run after the CONNECT reply and race with the client's first events)",
        "disconnect reasons are checked against the set allowed for the scenario's cause (DESIGN appendix C)",
    ]


META = {
    "text": "TLC checks ServerConn.tla with middleware chains (MwOrderAndStop, AttachOnlyAfterAccept, RejectedLeavesNothing, also with the connection closing inside a middleware). Every chain of 0..3 (thorough 0..5) middlewares over {accept, reject with error / string / struct} runs on a real server on the default and a custom namespace with 2-4 clients connecting concurrently; hook records (mw.enter / mw.reject / store set / connected) and what the clients saw (connect, or connect_error carrying the first rejection's value) must follow ServerConnTrace.tla, and the residue after a rejection must be empty. Event middlewares: chains over {accept, reject} x event signatures (first argument string or not, with ack); each middleware must be shown the event's name and arguments, and a rejected event must not reach its handler.",
    "note": "Trusted: hooks in runMiddlewares and the stores; the harness's rendering of rejection values.",
    "technique": "TLA+/TLC model checking + exhaustive chain enumeration on the real server with trace validation",
    "design_ref": "DESIGN.md 4.6, 5 (C12)",
}
