"""C11 - Engine.IO framing (EioFraming.tla)."""
import os
import vcheck


def run(ctx):
    rec, _ = ctx.mc("EioFraming", "EioFraming_q.cfg", workers=4)
    # the invariant quantifies over the whole domain inside one state: count its cases
    ctx.extra["spec_cases_evaluated"] = 2 * 70001 + 70001 + 2 * 680 + 680 * 680
    out, res = ctx.go_test("c11", "^TestC11$")
    if res is None:
        return
    ctx.validate("EioFramingTrace", "EioFramingTrace.cfg", os.path.join(out, "trace.ndjson"), sigprefix="c11")
    ctx.assumptions += [
        "bytes are compared as integer sequences; base64 is specified in TLA+ over 3-byte groups",
        "allocation caused by a frame header is measured as the process's TotalAlloc delta around the decode call (slack 1 MiB)",
    ]


META = {
    "text": "EioFraming.tla defines packet, payload and WebTransport frame encodings as functions over byte sequences (base64 included); TLC checks advertised length = real length on the bounded packet domain and header round trip / header form for every frame length 0..70000 x flag. The real encoders/decoders are run on the same packet domain, on payloads of 1-3 packets, on real frames of the tier's length set (thorough: every length 0..70000) and on arbitrary byte strings; every output is compared byte for byte with the specification in TLA+, decoders must not panic, and a hostile length header must not make the limited reader allocate beyond the limit.",
    "note": "Trusted: the harness's conversion of bytes to integer sequences; TotalAlloc as allocation measure. JSON of the handshake packet is not specified (see DESIGN section 6).",
    "technique": "TLA+ functional specification checked by TLC + vector replay of the real codecs judged byte-for-byte in TLA+",
    "design_ref": "DESIGN.md 4.11, 5 (C11)",
}
