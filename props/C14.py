"""C14 - heartbeats (EioHeartbeat.tla)."""
import os
import vcheck


def run(ctx):
    ctx.mc("EioHeartbeat", "EioHeartbeat_ok.cfg")
    ctx.mc("EioHeartbeat", "EioHeartbeat_ok2.cfg")
    ctx.mc("EioHeartbeat", "EioHeartbeat_dev_norearm.cfg", expect="violates:LiveNotKilled")
    ctx.mc("EioHeartbeat", "EioHeartbeat_dev_pongignored.cfg", expect="violates:LiveNotKilled")
    # heartbeats through the upgrade: a PING parked in the old poll queue must survive the server's swap
    ctx.mc("EioSession", "EioSession_ok.cfg")
    ctx.mc("EioSession", "EioSession_dev_resendmsgsonly.cfg", expect="violates:HeartbeatNotLost")
    out, res = ctx.go_test("c07", "^TestC14$")
    if res is None:
        return
    ctx.validate("EioSessionTrace", "EioSessionTrace.cfg", os.path.join(out, "trace.ndjson"), sigprefix="c14")
    ctx.assumptions += [
        "detection bound is judged per side relative to the last heartbeat that side received (PONG at the server, PING at the client) plus 700 ms scheduling slack; for a link dead in both directions that is also PI+PT after the black hole",
        "the smallest heartbeat settings the server accepts are 1 s / 1 s",
    ]


META = {
    "text": "TLC checks EioHeartbeat.tla, a timed model of the server's ping loop and the client's watchdog with the link black-holed at every tick in both / one direction: a live peer is never closed, closes happen only on a dead link, each side closes within PI+PT of the last heartbeat it received, a fully dead link is closed on both sides within PI+PT; two deviations (watchdog not re-armed, pongs ignored) must violate. EioSession.tla carries the heartbeats through the transport upgrade (a PING parked in the old poll queue when the server swaps): every PING sent is handled and answered (HeartbeatNotLost); the deviation that re-sends MESSAGE packets only must violate. Real sessions behind a byte-swallowing proxy are black-holed after a ping, after a pong, early in the interval, during the upgrade, in one direction only, on polling and websocket; live sessions idle for >= 5 periods with traffic at random phases. Hook records with microsecond times are validated by EioSessionTrace.tla (reason ping timeout on both sides, in time; never on an undisturbed session).",
    "note": "Trusted: the proxy's black-hole switch; hook times; 700 ms slack.",
    "technique": "TLA+/TLC timed model checking + trace validation with logged times behind a fault proxy",
    "design_ref": "DESIGN.md 4.7, 5 (C14)",
}
