"""C10 - Socket.IO codec (SioCodec.tla)."""
import os
import vcheck


def run(ctx):
    ctx.mc("SioCodec", "SioCodec.cfg", workers=4)
    out, res = ctx.go_test("c09", "^TestC10$", timeout=1400)
    if res is None:
        return
    ctx.validate("SioCodecTrace", "SioCodecTrace.cfg", os.path.join(out, "trace.ndjson"), sigprefix="c10", timeout=1200)
    # process level, in its own process: a crash of that process is the violation
    n_und = len(ctx.undecided)
    out2, res2 = ctx.go_test("c09", "^TestC10Live$", name="go-live", timeout=600)
    if res2 is None:
        log = open(os.path.join(out2, "go_test.out")).read()
        if "panic:" in log or "fatal error:" in log:
            del ctx.undecided[n_und:]
            i = log.find("panic:") if "panic:" in log else log.find("fatal error:")
            ctx.violation("c10-process-crash", "a malformed frame from a peer crashed the server process: " + " ".join(log[i:i + 700].split()),
                          {"log_excerpt": log[i:i + 3000]})
        return
    ctx.validate("SioCodecTrace", "SioCodecTrace.cfg", os.path.join(out2, "trace.ndjson"), sigprefix="c10-live")
    ctx.assumptions += [
        "coverage-guided fuzzing is outside this family (DESIGN section 6); inputs are class-complete enumerations, all short strings and seeded grammar-aware mutations",
        "where the reference reader and the code disagree on accept/reject of a malformed header only crash/hang-freedom and non-negative frame counts are required",
    ]


META = {
    "text": "The receiver machine of SioCodec.tla (idle / collecting n frames) is model-checked for totality and non-negative frame counts. Every byte string up to length 4 (thorough 5) over the 12 protocol-significant bytes goes to the real header reader (no panic; fields equal the reference reader's for well-formed input); header classes x body / placeholder classes (valid, too large, negative, repeated, non-numeric, huge) x frame sequences and seeded grammar-aware mutations go through a real parser, and every finished packet is decoded against five handler signature families under recover and a watchdog; malformed frames are sent to a running server with a healthy connection open: the offender is closed or an error handler runs, the healthy and later connections keep working.",
    "note": "Trusted: recover/watchdog of the harness; raw long-polling peer.",
    "technique": "TLA+ receiver machine + reference header reader, vector replay of the real decoder under a watchdog, process-level probes",
    "design_ref": "DESIGN.md 4.11, 5 (C10)",
}
