"""C02 - event pipeline (Delivery.tla)."""
import os
import vcheck


def run(ctx):
    for cfg, exp in [("ok", "ok"), ("ok2", "ok"), ("code", "ok"), ("dev_reorder", "violates:HandlerOrderPerEmitter"),
                     ("dev_split", "violates:FramesContiguous"), ("dev_lifo", "violates:WireOrderPerEmitter")]:
        ctx.mc("MCDelivery", "Delivery_%s.cfg" % cfg, expect=exp)
    out, res = ctx.go_test("c01", "^TestC02$", timeout=1400)
    if res is None:
        return
    ctx.validate("DeliveryTrace", "DeliveryTrace.cfg", os.path.join(out, "trace.ndjson"), sigprefix="delivery", timeout=1200)
    ctx.assumptions += [
        "argument equality is computed by the handler itself (deep comparison with the value regenerated from the tag) and enters the trace as the flag ok; the specification requires it",
        "FIFO reception is required on settled transports only (scenarios with an upgrade emit after it completed)",
    ]


META = {
    "text": "Same specification as C01 (Delivery.tla); here the scenarios stress order: up to 16 goroutines per side emitting bursts with 0-4 attachments on each settled transport (polling, websocket, after a completed upgrade). DeliveryTrace.tla requires that each pq.add appends exactly the frames of one packet in order, each batch sent is a prefix of the queue, the peer's Engine.IO socket receives exactly the frames sent in that order (hence contiguous binary frames and per-emitter wire order), and handlers are entered in emit order per emitter. The latter is known to fail by design (one goroutine per packet): such entries are accepted only through the named deviation K3, reported as KNOWN-FINDING, and reproduced deterministically by holding the first packet's dispatch goroutine at its yield point.",
    "note": "Trusted: as C01; wire order is observed at the receiving Engine.IO socket of the repository (hook), not by an external sniffer.",
    "technique": "TLA+/TLC model checking + trace validation with a named deviation for the recorded finding",
    "design_ref": "DESIGN.md 4.10, 5 (C02)",
}
