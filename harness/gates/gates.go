//go:build verif

// Package gates turns the vhook.Yield points of /repo into a scheduler:
// goroutines arriving at a held point block until the driver releases them.
package gates

import (
	"bytes"
	"fmt"
	"runtime"
	"strconv"
	"strings"
	"sync"
	"time"

	sio "github.com/karagenc/socket.io-go"
	"verif/harness/vtrace"
)

type Waiter struct {
	Point   string
	Key     any
	GID     int64
	release chan struct{}
}

type Controller struct {
	mu      sync.Mutex
	cond    *sync.Cond
	hold    func(point string, key any) bool
	waiting []*Waiter
	yieldFn func(point string, key any) // optional: called instead of holding (e.g. Gosched injection)
}

func New() *Controller {
	c := &Controller{}
	c.cond = sync.NewCond(&c.mu)
	return c
}

// Install makes c the process-wide gate.
func (c *Controller) Install() { sio.VerifSetGate(c.Gate) }

func Uninstall() { sio.VerifSetGate(nil) }

// HoldIf sets the predicate deciding which arrivals are held.
func (c *Controller) HoldIf(f func(point string, key any) bool) {
	c.mu.Lock()
	c.hold = f
	c.mu.Unlock()
}

func (c *Controller) HoldAll() { c.HoldIf(func(string, any) bool { return true }) }

// Gate is the hook entry; the harness may also call it for its own yield points.
func (c *Controller) Gate(point string, key any) {
	c.mu.Lock()
	if c.hold == nil || !c.hold(point, key) {
		c.mu.Unlock()
		return
	}
	w := &Waiter{Point: point, Key: key, GID: vtrace.GoID(), release: make(chan struct{})}
	c.waiting = append(c.waiting, w)
	c.cond.Broadcast()
	c.mu.Unlock()
	<-w.release
}

// Release lets a held goroutine continue.
func (c *Controller) Release(w *Waiter) {
	c.mu.Lock()
	for i, x := range c.waiting {
		if x == w {
			c.waiting = append(c.waiting[:i], c.waiting[i+1:]...)
			break
		}
	}
	c.mu.Unlock()
	close(w.release)
}

// OpenAll stops holding and releases everyone.
func (c *Controller) OpenAll() {
	c.mu.Lock()
	c.hold = nil
	ws := c.waiting
	c.waiting = nil
	c.mu.Unlock()
	for _, w := range ws {
		close(w.release)
	}
}

// Find returns the first held goroutine matching pred, or nil.
func (c *Controller) Find(pred func(*Waiter) bool) *Waiter {
	c.mu.Lock()
	defer c.mu.Unlock()
	for _, w := range c.waiting {
		if pred(w) {
			return w
		}
	}
	return nil
}

// WaitFor blocks until a held goroutine matches pred or the deadline passes.
func (c *Controller) WaitFor(pred func(*Waiter) bool, d time.Duration) *Waiter {
	deadline := time.Now().Add(d)
	for {
		if w := c.Find(pred); w != nil {
			return w
		}
		if time.Now().After(deadline) {
			return nil
		}
		time.Sleep(200 * time.Microsecond)
	}
}

func (c *Controller) Held() []*Waiter {
	c.mu.Lock()
	defer c.mu.Unlock()
	return append([]*Waiter(nil), c.waiting...)
}

// ---------------------------------------------------------------------------
// goroutine states

// States maps goroutine id -> wait state as printed by the runtime ("running", "select", "chan receive", ...).
func States() map[int64]string {
	buf := make([]byte, 1<<16)
	for {
		n := runtime.Stack(buf, true)
		if n < len(buf) {
			buf = buf[:n]
			break
		}
		buf = make([]byte, 2*len(buf))
	}
	out := map[int64]string{}
	for _, blk := range bytes.Split(buf, []byte("\n\n")) {
		s := string(blk)
		if !strings.HasPrefix(s, "goroutine ") {
			continue
		}
		s = s[len("goroutine "):]
		i := strings.IndexByte(s, ' ')
		if i < 0 {
			continue
		}
		id, err := strconv.ParseInt(s[:i], 10, 64)
		if err != nil {
			continue
		}
		j := strings.IndexByte(s, '[')
		k := strings.IndexByte(s, ']')
		if j < 0 || k < j {
			continue
		}
		st := s[j+1 : k]
		if c := strings.IndexByte(st, ','); c >= 0 {
			st = st[:c]
		}
		out[id] = st
	}
	return out
}

// Stack returns the full stack dump of all goroutines (for replay directories).
func Stack() string {
	buf := make([]byte, 1<<20)
	n := runtime.Stack(buf, true)
	return string(buf[:n])
}

func blockedState(st string) bool {
	switch st {
	case "select", "chan receive", "chan send", "semacquire", "sync.Mutex.Lock", "sync.RWMutex.Lock",
		"sync.RWMutex.RLock", "sync.Cond.Wait", "IO wait", "sync.WaitGroup.Wait", "select (no cases)",
		"chan receive (nil chan)", "chan send (nil chan)":
		return true
	}
	return false
}

// ---------------------------------------------------------------------------
// Sched: named processes, each a goroutine running a real operation.

type Proc struct {
	Name string
	gid  int64
	done chan struct{}
	ret  any
}

type Sched struct {
	C     *Controller
	mu    sync.Mutex
	procs map[string]*Proc
	order []string
}

func NewSched(c *Controller) *Sched { return &Sched{C: c, procs: map[string]*Proc{}} }

// Spawn starts f on a new goroutine that first stops at the harness gate "start".
func (s *Sched) Spawn(name string, f func() any) *Proc {
	p := &Proc{Name: name, done: make(chan struct{})}
	s.mu.Lock()
	s.procs[name] = p
	s.order = append(s.order, name)
	s.mu.Unlock()
	ready := make(chan struct{})
	go func() {
		p.gid = vtrace.GoID()
		close(ready)
		s.C.Gate("start", name)
		p.ret = f()
		close(p.done)
	}()
	<-ready
	// wait until it is held at start
	s.C.WaitFor(func(w *Waiter) bool { return w.GID == p.gid }, 5*time.Second)
	return p
}

func (s *Sched) Proc(name string) *Proc { s.mu.Lock(); defer s.mu.Unlock(); return s.procs[name] }

func (p *Proc) Done() bool {
	select {
	case <-p.done:
		return true
	default:
		return false
	}
}

func (p *Proc) Result() any { return p.ret }

// Status: "done", "held:<point>", "blocked:<state>", "running".
func (s *Sched) Status(name string) string {
	p := s.Proc(name)
	if p == nil {
		return "absent"
	}
	if p.Done() {
		return "done"
	}
	if w := s.C.Find(func(w *Waiter) bool { return w.GID == p.gid }); w != nil {
		return "held:" + w.Point
	}
	st := States()[p.gid]
	if blockedState(st) {
		return "blocked:" + st
	}
	if st == "sleep" {
		return "sleep"
	}
	return "running"
}

func settled(st string) bool {
	return st == "done" || strings.HasPrefix(st, "held:") || strings.HasPrefix(st, "blocked:") || st == "absent"
}

// Settle waits until every process is done, held or blocked (stable over two samples).
func (s *Sched) Settle(d time.Duration) bool {
	deadline := time.Now().Add(d)
	stable := 0
	for {
		all := true
		s.mu.Lock()
		names := append([]string(nil), s.order...)
		s.mu.Unlock()
		for _, n := range names {
			if !settled(s.Status(n)) {
				all = false
				break
			}
		}
		if all {
			stable++
			if stable >= 3 {
				return true
			}
		} else {
			stable = 0
		}
		if time.Now().After(deadline) {
			return false
		}
		time.Sleep(300 * time.Microsecond)
	}
}

// Step releases the named process if it is held and waits for everything to settle.
// It reports whether the process was held (i.e. whether the step was controllable).
func (s *Sched) Step(name string, d time.Duration) (bool, error) {
	p := s.Proc(name)
	if p == nil {
		return false, fmt.Errorf("no process %q", name)
	}
	w := s.C.Find(func(w *Waiter) bool { return w.GID == p.gid })
	if w == nil {
		if !s.Settle(d) {
			return false, fmt.Errorf("not settled")
		}
		return false, nil
	}
	s.C.Release(w)
	// give the goroutine a moment to leave the gate before sampling states
	runtime.Gosched()
	if !s.Settle(d) {
		return true, fmt.Errorf("not settled after releasing %s", name)
	}
	return true, nil
}

// Statuses returns name -> status for all processes.
func (s *Sched) Statuses() map[string]string {
	s.mu.Lock()
	names := append([]string(nil), s.order...)
	s.mu.Unlock()
	out := map[string]string{}
	for _, n := range names {
		out[n] = s.Status(n)
	}
	return out
}

// WaitDone waits for the named process to return.
func (s *Sched) WaitDone(name string, d time.Duration) bool {
	p := s.Proc(name)
	select {
	case <-p.done:
		return true
	case <-time.After(d):
		return false
	}
}
