//go:build verif

// Driver for C15 (reconnection with bounded back-off, offline emits): a real Go
// client behind a fault proxy, outage patterns x attempt limits x emit mixes,
// deterministic schedules for the windows the design specification singles out,
// and the back-off calculator evaluated on its own.
package c15

import (
	"bytes"
	"fmt"
	"math"
	"math/rand"
	"net/http"
	"os"
	"path/filepath"
	"regexp"
	"runtime"
	"strconv"
	"strings"
	"sync"
	"sync/atomic"
	"testing"
	"time"

	sio "github.com/karagenc/socket.io-go"
	eioparser "github.com/karagenc/socket.io-go/engine.io/parser"

	"verif/harness/gates"
	"verif/harness/proxy"
	"verif/harness/rig"
	"verif/harness/vres"
	"verif/harness/vtrace"
)

var kept = map[string]bool{"mgr.state": true, "mgr.skip": true, "backoff.next": true, "backoff.reset": true, "mgr.sleep": true, "mgr.wake": true,
	"csock.state": true, "csock.send": true, "sendbuf.append": true, "csock.drop": true, "sendbuf.flush": true, "eio.s.recv": true,
	"reset": true, "link": true, "user.connect": true, "emit.start": true, "h.entry": true, "ack": true, "m.attempt": true, "m.recerror": true,
	"m.failed": true, "m.reconnect": true, "m.open": true, "m.close": true, "m.error": true, "sock.connect": true, "sock.disconnect": true,
	"quiesce": true, "note": true, "backoff.vec": true}

func keep(name string) bool { return kept[name] }

var reTag = regexp.MustCompile(`e:(\d+)(?:a\d+)?:`)

func frameTag(d []byte) int {
	if len(d) > 96 {
		d = d[:96]
	}
	m := reTag.FindSubmatch(d)
	if m == nil {
		return 0
	}
	n, _ := strconv.Atoi(string(m[1]))
	return n
}

func convert(v any) (any, bool) {
	ps, ok := v.([]*eioparser.Packet)
	if !ok {
		return nil, false
	}
	out := make([]int, len(ps))
	for i, p := range ps {
		if p.Type == eioparser.PacketTypeMessage {
			out[i] = frameTag(p.Data)
		}
	}
	return out, true
}

type conf struct {
	Name       string
	Transports []string
	Limit      uint32
	Min, Max   time.Duration
	Jitter     float32
	SlowMw     time.Duration // the server's namespace middleware takes this long
	Greeting   bool          // the server emits an event with an ack from its connection handler
	HTTPTO     time.Duration // ResponseHeaderTimeout of a user-supplied HTTP transport (polling)
	Chaos      int           // > 0: a Debugger that sleeps in about one log call out of Chaos
	FastPing   bool          // short heartbeat: the shortest the server accepts: a silent link is noticed within two seconds
}

type world struct {
	cf      conf
	srv     *rig.Server
	px      *proxy.Proxy
	m       *sio.Manager
	s       sio.ClientSocket
	n       int // events emitted
	entries int64
	acks    int64
	recErrs int64
	failed  int64
	conns   int64
	discs   int64
	nonVol  int
	nAck    int
}

func tag(n int) string { return fmt.Sprintf("e:%d:", n) }
func bin(n, i, size int) sio.Binary {
	p := []byte(fmt.Sprintf("e:%da%d:", n, i))
	b := make([]byte, len(p)+size)
	copy(b, p)
	for k := len(p); k < len(b); k++ {
		b[k] = byte(k * 7)
	}
	return b
}

func newWorld(cf conf) (*world, error) {
	w := &world{cf: cf}
	entry := func(t string, ok bool) {
		n := 0
		if m := reTag.FindStringSubmatch(t); m != nil {
			n, _ = strconv.Atoi(m[1])
		}
		vtrace.Emit("h.entry", "n", n, "ok", ok)
		atomic.AddInt64(&w.entries, 1)
	}
	scfg := &sio.ServerConfig{}
	if cf.FastPing {
		scfg.EIO.PingInterval, scfg.EIO.PingTimeout = time.Second, time.Second
	}
	srv, err := rig.NewServer(scfg, func(io *sio.Server) {
		io.Of("/").Use(func(s sio.ServerSocket, h *sio.Handshake) any {
			s.OnEvent("ev", func(t string) { entry(t, true) })
			s.OnEvent("evb", func(t string, b sio.Binary) {
				n := frameTag([]byte(t))
				entry(t, bytes.Equal(b, bin(n, 1, 40)))
			})
			s.OnEvent("eva", func(t string, ack func(string)) { entry(t, true); ack(t) })
			if cf.SlowMw > 0 {
				time.Sleep(cf.SlowMw)
			}
			return nil
		})
		if cf.Greeting {
			io.Of("/").OnConnection(func(s sio.ServerSocket) {
				s.Emit("greet", "hello", func(r string) {})
			})
		}
	})
	if err != nil {
		return nil, err
	}
	w.srv = srv
	px, err := proxy.New(strings.TrimPrefix(srv.URL(), "http://"))
	if err != nil {
		srv.Close()
		return nil, err
	}
	w.px = px
	mc := &sio.ManagerConfig{ReconnectionAttempts: cf.Limit, ReconnectionDelay: &cf.Min, ReconnectionDelayMax: &cf.Max, RandomizationFactor: &cf.Jitter}
	if cf.HTTPTO > 0 {
		mc.EIO.HTTPTransport = &http.Transport{ResponseHeaderTimeout: cf.HTTPTO}
	}
	if cf.Chaos > 0 {
		mc.Debugger = &rig.ChaosDebugger{P: cf.Chaos}
	}
	w.m = rig.NewManager(px.URL(), cf.Transports, mc)
	w.s = w.m.Socket("/", nil)
	w.m.OnReconnectAttempt(func(n uint32) { vtrace.Emit("m.attempt", "n", int(n)) })
	w.m.OnReconnectError(func(err error) { vtrace.Emit("m.recerror"); atomic.AddInt64(&w.recErrs, 1) })
	w.m.OnReconnectFailed(func() { vtrace.Emit("m.failed"); atomic.AddInt64(&w.failed, 1) })
	w.m.OnReconnect(func(n uint32) { vtrace.Emit("m.reconnect", "n", int(n)) })
	w.m.OnOpen(func() { vtrace.Emit("m.open") })
	w.m.OnClose(func(r sio.Reason, err error) { vtrace.Emit("m.close", "reason", string(r)) })
	w.m.OnError(func(err error) { vtrace.Emit("m.error", "msg", err.Error()) })
	w.s.OnConnect(func() { vtrace.Emit("sock.connect"); atomic.AddInt64(&w.conns, 1) })
	w.s.OnDisconnect(func(r sio.Reason) { vtrace.Emit("sock.disconnect", "reason", string(r)); atomic.AddInt64(&w.discs, 1) })
	w.s.OnEvent("greet", func(x string, ack func(string)) { ack("ok") })
	mk, sk, bk := any(w.m), sio.VerifClientSocketKey(w.s), sio.VerifManagerBackoffKey(w.m)
	vtrace.SetObjectFilter(func(o any) bool { return o == mk || o == sk || o == bk })
	return w, nil
}

func (w *world) close() {
	// Manager.Close blocks while a dial hangs (finding K5): do not wait for it before the proxy is gone
	done := make(chan struct{})
	go func() { w.m.Close(); close(done) }()
	select {
	case <-done:
	case <-time.After(300 * time.Millisecond):
	}
	w.px.Close()
	w.srv.Close()
	select {
	case <-done:
	case <-time.After(2 * time.Second):
	}
}

// kinds: p plain, v volatile, a with ack, b binary
func (w *world) emit(kind byte) {
	w.n++
	n := w.n
	vol, natt, ack := kind == 'v', 0, kind == 'a'
	if kind == 'b' {
		natt = 1
	}
	vtrace.Emit("emit.start", "n", n, "vol", vol, "natt", natt, "ack", ack, "kind", string(kind))
	switch kind {
	case 'p':
		w.s.Emit("ev", tag(n))
	case 'v':
		w.s.Volatile().Emit("ev", tag(n))
	case 'a':
		w.s.Emit("eva", tag(n), func(r string) {
			vtrace.Emit("ack", "n", n, "ok", r == tag(n))
			atomic.AddInt64(&w.acks, 1)
		})
		w.nAck++
	case 'b':
		w.s.Emit("evb", tag(n), bin(n, 1, 40))
	}
	if !vol {
		w.nonVol++
	}
}

func (w *world) emits(kinds string) {
	for i := 0; i < len(kinds); i++ {
		w.emit(kinds[i])
	}
}

func (w *world) down(mode string) {
	vtrace.Emit("link", "state", "down", "mode", mode)
	if mode == "hole" {
		w.px.Blackhole(1)
	} else {
		w.px.Refuse(true)
	}
	w.px.CutAll()
}
func (w *world) up() {
	w.px.Refuse(false)
	w.px.Blackhole(0)
	vtrace.Emit("link", "state", "up")
}
func (w *world) connect() { vtrace.Emit("user.connect"); w.s.Connect() }
func (w *world) waitConnected(d time.Duration) bool {
	return rig.WaitUntil(d, func() bool { return w.s.Connected() })
}
func (w *world) waitDisconnected(d time.Duration) bool {
	return rig.WaitUntil(d, func() bool { st, _ := sio.VerifClientSocketState(w.s); return st == 2 && !w.s.Connected() })
}
func (w *world) waitDelivered(d time.Duration, entries, acks int) bool {
	return rig.WaitUntil(d, func() bool {
		return atomic.LoadInt64(&w.entries) >= int64(entries) && atomic.LoadInt64(&w.acks) >= int64(acks)
	})
}

type env struct {
	res  *vres.Result
	tw   *vtrace.Writer
	scen int
}

func (e *env) begin(cf conf, extra string) (*world, int) {
	e.scen++
	vtrace.Take()
	w, err := newWorld(cf)
	if err != nil {
		e.res.Inconclusive("rig", err.Error(), e.scen)
		return nil, e.scen
	}
	vtrace.Emit("reset", "scenario", e.scen, "cfg", cf.Name, "limit", int(cf.Limit), "min", int64(cf.Min), "max", int64(cf.Max),
		"jit", int(math.Round(float64(cf.Jitter)*100)), "slack", 1500000, "extra", extra)
	return w, e.scen
}

func (e *env) end(w *world, expect string, settle time.Duration) (discsBeforeClose int64) {
	switch expect {
	case "connected":
		w.waitConnected(settle)
		w.waitDelivered(settle, w.nonVol, w.nAck)
	case "gaveup":
		rig.WaitUntil(settle, func() bool { return atomic.LoadInt64(&w.failed) >= 1 })
	case "hung":
		time.Sleep(settle)
	}
	time.Sleep(60 * time.Millisecond)
	st, at, _ := sio.VerifManagerState(w.m)
	ss, nb := sio.VerifClientSocketState(w.s)
	discsBeforeClose = atomic.LoadInt64(&w.discs)
	vtrace.Emit("quiesce", "expect", expect, "connected", w.s.Connected(), "mstate", st, "attempts", int(at), "sstate", ss, "buffered", nb,
		"entries", atomic.LoadInt64(&w.entries), "acks", atomic.LoadInt64(&w.acks), "emitted", w.n)
	e.tw.Write(vtrace.Take()) // the tear-down below is not part of the scenario
	vtrace.SetObjectFilter(func(any) bool { return false })
	w.close()
	time.Sleep(20 * time.Millisecond)
	return
}

// abort drops a scenario that could not be set up: its records are not written
func (e *env) abort(w *world) {
	vtrace.SetObjectFilter(func(any) bool { return false })
	vtrace.Take()
	w.close()
	time.Sleep(20 * time.Millisecond)
	vtrace.Take()
}

// ---- patterns -------------------------------------------------------------------

// outage: connected, link down (refused), j failed attempts, then healed - or held down until the client gives up
func (e *env) outage(cf conf, j int, before, online, offline, after string, thenConnect bool) {
	w, id := e.begin(cf, fmt.Sprintf("outage j=%d before=%q online=%q offline=%q after=%q", j, before, online, offline, after))
	if w == nil {
		return
	}
	w.emits(before) // before the first Connect: the socket is disconnected
	w.connect()
	if !w.waitConnected(5 * time.Second) {
		e.res.Inconclusive("c15", "no initial connect", id)
		e.abort(w)
		return
	}
	w.emits(online)
	w.waitDelivered(4*time.Second, w.nonVol, w.nAck)
	time.Sleep(20 * time.Millisecond)
	w.down("refuse")
	w.waitDisconnected(4 * time.Second)
	w.emits(offline)
	givesUp := cf.Limit > 0 && j >= int(cf.Limit)
	if givesUp {
		e.endGaveUp(w, thenConnect, after)
		return
	}
	rig.WaitUntil(8*time.Second, func() bool { return atomic.LoadInt64(&w.recErrs) >= int64(j) })
	w.up()
	w.waitConnected(6 * time.Second)
	w.emits(after)
	e.end(w, "connected", 6*time.Second)
	e.res.Case(fmt.Sprint("outage", cf, j, before, online, offline, after), true)
}

func (e *env) endGaveUp(w *world, thenConnect bool, after string) {
	rig.WaitUntil(10*time.Second, func() bool { return atomic.LoadInt64(&w.failed) >= 1 })
	time.Sleep(3 * w.cf.Max) // a second announcement or a further attempt would show up here
	if !thenConnect {
		e.end(w, "gaveup", time.Second)
		e.res.Case(fmt.Sprint("gaveup", w.cf), true)
		return
	}
	// the user connects again once the server is back: everything parked is delivered
	w.up()
	w.connect()
	w.waitConnected(6 * time.Second)
	w.emits(after)
	e.end(w, "connected", 6*time.Second)
	e.res.Case(fmt.Sprint("gaveup-then-connect", w.cf), true)
}

// the server is unreachable when the user connects
func (e *env) initialDown(cf conf, j int, offline string) {
	w, _ := e.begin(cf, fmt.Sprintf("initial-down j=%d offline=%q", j, offline))
	if w == nil {
		return
	}
	w.down("refuse")
	w.emits(offline)
	w.connect()
	if cf.Limit > 0 && j >= int(cf.Limit) {
		e.endGaveUp(w, true, "p")
		return
	}
	rig.WaitUntil(8*time.Second, func() bool { return atomic.LoadInt64(&w.recErrs) >= int64(j) })
	w.up()
	e.end(w, "connected", 6*time.Second)
	e.res.Case(fmt.Sprint("initial-down", cf, j, offline), true)
}

// the user disconnects and connects again while the reconnection loop sleeps in its back-off (server
// unreachable): the old cycle must end there, the new one counts from 1 and gives up once
func (e *env) restartInBackoff(cf conf) {
	w, _ := e.begin(cf, "restart-in-backoff")
	if w == nil {
		return
	}
	w.down("refuse")
	w.connect()
	time.Sleep(cf.Min * 2 / 5) // the refused dial is over, the loop sleeps Min (no jitter) before its first attempt
	vtrace.Emit("note", "what", "user disconnect + connect inside the back-off sleep")
	w.s.Disconnect()
	w.connect()
	e.endGaveUp(w, false, "")
}

// flapping: the link goes away again right after each reconnection
func (e *env) flap(cf conf, cycles int, rng *rand.Rand) {
	w, id := e.begin(cf, fmt.Sprintf("flap cycles=%d", cycles))
	if w == nil {
		return
	}
	w.connect()
	if !w.waitConnected(5 * time.Second) {
		e.res.Inconclusive("c15", "no initial connect", id)
		e.abort(w)
		return
	}
	kinds := "pvab"
	for c := 0; c < cycles; c++ {
		w.waitDelivered(4*time.Second, w.nonVol, w.nAck)
		w.down("refuse")
		w.waitDisconnected(4 * time.Second)
		for k := 0; k < 1+rng.Intn(3); k++ {
			w.emit(kinds[rng.Intn(len(kinds))])
		}
		time.Sleep(time.Duration(rng.Intn(int(cf.Max))))
		w.up()
		w.waitConnected(6 * time.Second)
		w.emit('p')
	}
	e.end(w, "connected", 6*time.Second)
	e.res.Case(fmt.Sprint("flap", cf, cycles), true)
}

// an emit while the CONNECT is unanswered (slow middleware on the server)
func (e *env) pendingEmit(cf conf, preload bool) {
	cf.SlowMw = 120 * time.Millisecond
	w, id := e.begin(cf, fmt.Sprint("pending-emit preload=", preload))
	if w == nil {
		return
	}
	if preload {
		w.emit('p') // something is parked already / nothing is
	}
	w.connect()
	if !rig.WaitUntil(3*time.Second, func() bool { st, _ := sio.VerifClientSocketState(w.s); return st == 1 }) {
		e.res.Inconclusive("c15", "never pending", id)
	}
	w.emits("pvab")
	if d := e.end(w, "connected", 5*time.Second); d != 0 {
		e.res.Violation("c15-pending-emit-kills-connection", fmt.Sprintf("%s: an emit while the CONNECT was pending: the socket was disconnected %d time(s)", cf.Name, d), id, cf)
	}
	e.res.Case(fmt.Sprint("pending", cf, preload), true)
}

// the connection dies between Dial returning and the Manager recording it (schedule from the model's counterexample)
func (e *env) earlyClose(cf conf) {
	w, id := e.begin(cf, "early-close")
	if w == nil {
		return
	}
	ctl := gates.New()
	mk := any(w.m)
	ctl.HoldIf(func(pt string, k any) bool { return pt == "mgr.connect.dialed" && k == mk })
	ctl.Install()
	w.emit('p')
	w.connect()
	h := ctl.WaitFor(func(*gates.Waiter) bool { return true }, 3*time.Second)
	if h == nil {
		e.res.Inconclusive("c15", "gate not reached", id)
	}
	vtrace.Emit("link", "state", "down", "mode", "cut")
	w.px.CutAll()
	// the close is reported while connect stands at the gate
	time.Sleep(200 * time.Millisecond)
	vtrace.Emit("link", "state", "up")
	ctl.OpenAll()
	gates.Uninstall()
	e.end(w, "connected", 4*time.Second)
	e.res.Case(fmt.Sprint("early-close", cf), true)
}

// an event of the server buffered before the CONNECT reply, acknowledged synchronously, and parked emits
func (e *env) greetingFlush(cf conf) {
	cf.Greeting = true
	w, id := e.begin(cf, "greeting-flush")
	if w == nil {
		return
	}
	ctl := gates.New()
	sk := sio.VerifClientSocketKey(w.s)
	ctl.HoldIf(func(pt string, k any) bool { return pt == "csocket.onPacket.start" && k == sk })
	ctl.Install()
	w.emits("pa")
	w.connect()
	// the dispatch goroutines of the CONNECT reply and of the greeting stand at their first statement
	if !rig.WaitUntil(3*time.Second, func() bool { return len(ctl.Held()) >= 2 }) {
		e.res.Inconclusive("c15", "greeting did not arrive", id)
	}
	held := ctl.Held()
	if len(held) >= 2 {
		ctl.Release(held[1]) // the greeting first: the socket is still pending, the event is buffered
		time.Sleep(30 * time.Millisecond)
	}
	ctl.OpenAll()
	gates.Uninstall()
	e.end(w, "connected", 4*time.Second)
	e.res.Case(fmt.Sprint("greeting", cf), true)
}

// an emit between the socket's state write and its flush
func (e *env) flushWindow(cf conf) {
	w, id := e.begin(cf, "flush-window")
	if w == nil {
		return
	}
	ctl := gates.New()
	sk := sio.VerifClientSocketKey(w.s)
	ctl.HoldIf(func(pt string, k any) bool { return pt == "csocket.onConnect.connected" && k == sk })
	ctl.Install()
	w.emits("pb")
	w.connect()
	if ctl.WaitFor(func(*gates.Waiter) bool { return true }, 3*time.Second) == nil {
		e.res.Inconclusive("c15", "gate not reached", id)
	}
	w.emits("pv") // Connected() already reports true
	ctl.OpenAll()
	gates.Uninstall()
	w.emit('p')
	e.end(w, "connected", 4*time.Second)
	e.res.Case(fmt.Sprint("flush-window", cf), true)
}

// one goroutine emits without a pause while the socket connects, and again while it reconnects: nothing of
// what it emits may overtake anything it emitted earlier (log calls and hook points are scheduling points here)
func (e *env) emitStorm(cf conf) {
	cf.Chaos = 1 // every log call of the library sleeps 20..300 us
	w, id := e.begin(cf, "emit-storm")
	if w == nil {
		return
	}
	var yc int64
	sio.VerifSetGate(func(string, any) {
		if atomic.AddInt64(&yc, 1)%3 == 0 {
			runtime.Gosched()
		}
	})
	defer sio.VerifSetGate(nil)
	var run, stop, busy int32
	limit := int32(700) // per phase
	done := make(chan struct{})
	go func() {
		defer close(done)
		for atomic.LoadInt32(&stop) == 0 {
			if atomic.LoadInt32(&run) == 1 && w.n < int(atomic.LoadInt32(&limit)) {
				atomic.StoreInt32(&busy, 1)
				if atomic.LoadInt32(&run) == 0 { // paused meanwhile
					atomic.StoreInt32(&busy, 0)
					continue
				}
				w.emit("pb"[w.n%2])
				atomic.StoreInt32(&busy, 0)
				if w.n%6 == 0 {
					time.Sleep(50 * time.Microsecond) // paced: the storm has to last through the connect
				} else {
					runtime.Gosched()
				}
			} else {
				time.Sleep(100 * time.Microsecond)
			}
		}
	}()
	atomic.StoreInt32(&run, 1)
	time.Sleep(2 * time.Millisecond) // some emits before Connect
	w.connect()
	if !w.waitConnected(5 * time.Second) {
		atomic.StoreInt32(&stop, 1)
		<-done
		e.res.Inconclusive("c15", "no initial connect", id)
		e.abort(w)
		return
	}
	time.Sleep(10 * time.Millisecond)
	// quiet before the cut (what is in flight when the link goes is not owed), then the storm again while offline and reconnecting
	atomic.StoreInt32(&run, 0)
	rig.WaitUntil(2*time.Second, func() bool { return atomic.LoadInt32(&busy) == 0 }) // no emit is half-way
	time.Sleep(time.Millisecond)
	w.waitDelivered(5*time.Second, w.nonVol, 0)
	w.down("refuse")
	w.waitDisconnected(4 * time.Second)
	atomic.StoreInt32(&limit, int32(w.n)+700)
	atomic.StoreInt32(&run, 1)
	time.Sleep(5 * time.Millisecond)
	w.up()
	w.waitConnected(6 * time.Second)
	time.Sleep(10 * time.Millisecond)
	atomic.StoreInt32(&stop, 1)
	<-done
	e.end(w, "connected", 8*time.Second)
	e.res.Case(fmt.Sprint("emit-storm", cf), true)
}

// black-holed dials
func (e *env) hole(cf conf, expect string) {
	cf.FastPing = true
	w, id := e.begin(cf, "hole "+expect)
	if w == nil {
		return
	}
	w.connect()
	if !w.waitConnected(5 * time.Second) {
		e.res.Inconclusive("c15", "no initial connect", id)
		e.abort(w)
		return
	}
	w.down("hole")
	w.waitDisconnected(4 * time.Second)
	w.emit('p')
	// at least one dial was swallowed
	rig.WaitUntil(3*time.Second, func() bool { st, _, _ := sio.VerifManagerState(w.m); return st == 0 })
	time.Sleep(100 * time.Millisecond)
	w.up()
	e.end(w, expect, 3*time.Second)
	e.res.Case(fmt.Sprint("hole", cf, expect), true)
}

func TestC15(t *testing.T) {
	out := vres.OutDir()
	res := vres.New()
	res.Rule = "one case = one scenario on a fresh server + proxy + client: outage pattern (down for j attempts then healed / held down until the client gives up / unreachable at first / flapping / black-holed) x attempt limit 0..5 x transport x jitter x mixes of plain, volatile, ack-carrying and binary emits before, during and after; plus the deterministic schedules (emit while pending with and without something parked, close while Dial returns, buffered greeting, emit between state write and flush, user disconnect + connect inside a back-off sleep) and emit storms (one goroutine emitting without pause through connect and reconnect, every log call of the library and every hook point a scheduling point); all non-trivial"
	vtrace.Install()
	defer vtrace.Uninstall()
	vtrace.SetFilter(keep)
	vtrace.SetObjectKeys("m", "s", "b")
	vtrace.Convert = convert
	vtrace.WithGoroutine(false)
	tw, err := vtrace.NewWriter(filepath.Join(out, "trace.ndjson"))
	if err != nil {
		t.Fatal(err)
	}
	e := &env{res: res, tw: tw}
	rng := rand.New(rand.NewSource(vres.Seed()))
	thorough := vres.Tier() == "thorough"
	ms := time.Millisecond
	base := func(name string, tr []string, limit uint32, jit float32) conf {
		return conf{Name: name, Transports: tr, Limit: limit, Min: 20 * ms, Max: 80 * ms, Jitter: jit}
	}
	ws, po := []string{"websocket"}, []string{"polling"}
	if os.Getenv("VERIF_ONLY") == "storm" { // development aid
		for k := 0; k < 30; k++ {
			e.emitStorm(base("emit-storm", [][]string{ws, po}[k%2], 0, 0))
		}
		res.Scenarios = e.scen
		tw.Close()
		res.Write(out, "result.json")
		return
	}
	mixes := []string{"pvab", "apvb", "bbpa", "vpva", "p", "av"}
	// outages: limit x j
	limits := []uint32{0, 1, 2, 3, 5}
	if thorough {
		limits = []uint32{0, 1, 2, 3, 4, 5}
	}
	i := 0
	for _, lim := range limits {
		js := []int{0, 1, int(lim)}
		if lim == 0 {
			js = []int{1, 3, 6}
		}
		if thorough {
			js = nil
			for j := 0; j <= int(lim)+1 && j <= 6; j++ {
				js = append(js, j)
			}
			if lim == 0 {
				js = []int{0, 1, 2, 4, 7}
			}
		}
		for _, j := range js {
			i++
			tr := ws
			if i%3 == 0 {
				tr = po
			}
			jit := float32(0)
			if i%2 == 0 {
				jit = 0.5
			}
			cf := base(fmt.Sprintf("outage-l%d-j%d", lim, j), tr, lim, jit)
			e.outage(cf, j, mixes[i%len(mixes)], mixes[(i+1)%len(mixes)], mixes[(i+2)%len(mixes)], "pa", i%2 == 0)
		}
	}
	for _, lim := range []uint32{0, 2} {
		for _, j := range []int{0, 2} {
			e.initialDown(base(fmt.Sprintf("initial-down-l%d-j%d", lim, j), ws, lim, 0.5), j, "pvab")
		}
	}
	for c := 0; c < vres.Pick(2, 8); c++ {
		tr := ws
		if c%2 == 1 {
			tr = po
		}
		e.flap(base("flap", tr, 0, 0.5), vres.Pick(3, 6), rng)
	}
	for _, tr := range [][]string{ws, po} {
		e.pendingEmit(base("pending-emit", tr, 0, 0), true)
		e.pendingEmit(base("pending-emit-empty", tr, 0, 0), false)
		if tr[0] == "websocket" {
			// (cutting TCP connections does not end a polling session: the schedule needs a transport that dies with its connection)
			e.earlyClose(base("early-close", tr, 0, 0))
		}
		e.greetingFlush(base("greeting-flush", tr, 0, 0))
		for k := 0; k < vres.Pick(2, 6); k++ {
			e.emitStorm(base("emit-storm", tr, 0, 0))
		}
		e.flushWindow(base("flush-window", tr, 0, 0))
	}
	for _, tr := range [][]string{ws, po} {
		cf := base("restart-in-backoff", tr, 2, 0)
		cf.Min, cf.Max = 180*ms, 180*ms
		e.restartInBackoff(cf)
	}
	e.hole(base("hole-default", ws, 0, 0), "hung")
	e.hole(base("hole-default", po, 0, 0), "hung")
	cf := base("hole-user-timeout", po, 0, 0)
	cf.HTTPTO = 250 * ms
	e.hole(cf, "connected")
	res.Scenarios = e.scen
	tw.Close()
	if err := res.Write(out, "result.json"); err != nil {
		t.Fatal(err)
	}
}

func limbs(x int64) []int {
	u := uint64(x)
	return []int{int(u >> 42 & 0x1fffff), int(u >> 21 & 0x1fffff), int(u & 0x1fffff)}
}

// the back-off calculator: all (delay, max, jitter, attempt number), overflowing attempt numbers included
func TestC15Backoff(t *testing.T) {
	out := vres.OutDir()
	res := vres.New()
	res.Rule = "one case = one (delay, max, jitter, attempt number) given to the real calculator (jittered ones repeated: the calculator draws random numbers); delays and maxima from 1ns to 2^62ns, attempt numbers 0..70 and around 2^31, 2^32-1"
	tw, err := vtrace.NewWriter(filepath.Join(out, "trace.ndjson"))
	if err != nil {
		t.Fatal(err)
	}
	tw.Write([]vtrace.Rec{{"ev": "reset", "scenario": 1, "cfg": "backoff-vectors", "limit": 0, "min": 0, "max": 0, "jit": 0, "slack": 0}})
	mins := []time.Duration{1, 2, 999, time.Microsecond, time.Millisecond, 20 * time.Millisecond, time.Second, 3 * time.Second, time.Minute, time.Hour, 1 << 40, 1 << 52, 1<<53 + 1, 1 << 61, 1 << 62}
	maxs := []time.Duration{1, 5, time.Millisecond, 80 * time.Millisecond, 5 * time.Second, time.Minute, 24 * time.Hour, 1 << 45, 1<<53 + 1, 1 << 62, math.MaxInt64 - 1024}
	jits := []float32{0, 0.01, 0.25, 0.5, 0.99, 1}
	atts := []uint32{}
	for a := uint32(0); a <= 70; a++ {
		atts = append(atts, a)
	}
	atts = append(atts, 100, 1000, 1023, 1024, 1025, 1<<31-1, 1<<31, 1<<31+1, math.MaxUint32-1, math.MaxUint32)
	rng := rand.New(rand.NewSource(vres.Seed()))
	for _, mn := range mins {
		for _, mx := range maxs {
			if mx < mn && rng.Intn(3) != 0 {
				continue // max below the delay: sampled only
			}
			for _, j := range jits {
				for _, a := range atts {
					if vres.Tier() != "thorough" && a > 8 && rng.Intn(4) != 0 {
						continue
					}
					reps := 1
					if j > 0 {
						reps = vres.Pick(3, 12)
					}
					for r := 0; r < reps; r++ {
						d := sio.VerifBackoff(mn, mx, j, a)
						// the band around the configured delay for attempt 0, capped by max
						// (the calculator works in float64: one unit in the last place of tolerance)
						ulp := func(x int64) int64 { return x>>52 + 1 }
						lo := int64(math.Floor(float64(mn)*(1-float64(j)))) - ulp(int64(mn))
						hi := int64(math.Ceil(float64(mn)*(1+float64(j)))) + ulp(int64(mn))
						if lo > int64(mx)-ulp(int64(mx)) {
							lo = int64(mx) - ulp(int64(mx))
						}
						if hi > int64(mx) || hi < 0 {
							hi = int64(mx)
						}
						if lo < 0 {
							lo = 0
						}
						rec := vtrace.Rec{"ev": "backoff.vec", "min": limbs(int64(mn)), "max": limbs(int64(mx)), "jit": int(j * 100), "attempt": 0,
							"neg": d < 0, "d": limbs(int64(d)), "lo": limbs(lo), "hi": limbs(hi), "att": fmt.Sprint(a), "raw": fmt.Sprint(int64(d))}
						if a != 0 {
							rec["attempt"] = 1 // only "first or later" matters to the specification
						}
						tw.Write([]vtrace.Rec{rec})
						res.Case(fmt.Sprint(mn, mx, j, a, r), true)
					}
				}
			}
		}
	}
	res.Count("vectors", tw.Lines())
	tw.Close()
	if err := res.Write(out, "result.json"); err != nil {
		t.Fatal(err)
	}
}

var _ = sync.Mutex{}
