//go:build verif

// Package rig builds real in-process Socket.IO servers and Go clients over loopback.
package rig

import (
	"net/http"
	"net/http/httptest"
	"sync"
	"time"

	sio "github.com/karagenc/socket.io-go"
	"nhooyr.io/websocket"
)

type Server struct {
	IO *sio.Server
	TS *httptest.Server
}

// NewServer starts a server. setup runs before Run and must create the namespaces
// (a client is refused unless the namespace exists) and attach handlers inside
// namespace middlewares (connection handlers race with the client's first events).
func NewServer(cfg *sio.ServerConfig, setup func(io *sio.Server)) (*Server, error) {
	if cfg == nil {
		cfg = &sio.ServerConfig{}
	}
	if cfg.EIO.WebSocketAcceptOptions == nil {
		cfg.EIO.WebSocketAcceptOptions = &websocket.AcceptOptions{CompressionMode: websocket.CompressionDisabled}
	}
	io := sio.NewServer(cfg)
	if setup != nil {
		setup(io)
	}
	if err := io.Run(); err != nil {
		return nil, err
	}
	return &Server{IO: io, TS: httptest.NewServer(io)}, nil
}

func (s *Server) URL() string { return s.TS.URL }

func (s *Server) Close() {
	done := make(chan struct{})
	go func() {
		s.IO.Close()
		s.TS.CloseClientConnections()
		s.TS.Close()
		close(done)
	}()
	select {
	case <-done:
	case <-time.After(5 * time.Second):
	}
}

// NewManager creates a Go client manager restricted to the given transports.
func NewManager(url string, transports []string, cfg *sio.ManagerConfig) *sio.Manager {
	if cfg == nil {
		cfg = &sio.ManagerConfig{}
	}
	if len(transports) > 0 {
		cfg.EIO.Transports = transports
	}
	if cfg.EIO.WebSocketDialOptions == nil {
		cfg.EIO.WebSocketDialOptions = &websocket.DialOptions{CompressionMode: websocket.CompressionDisabled}
	}
	return sio.NewManager(url, cfg)
}

// ConnectSocket connects a client socket and waits for its connect event.
func ConnectSocket(m *sio.Manager, nsp string, cfg *sio.ClientSocketConfig, d time.Duration) (sio.ClientSocket, bool) {
	s := m.Socket(nsp, cfg)
	ch := make(chan struct{}, 1)
	var once sync.Once
	s.OnConnect(func() { once.Do(func() { close(ch) }) })
	s.Connect()
	select {
	case <-ch:
		return s, true
	case <-time.After(d):
		return s, false
	}
}

// WaitUntil polls cond until it holds or the deadline passes.
func WaitUntil(d time.Duration, cond func() bool) bool {
	dl := time.Now().Add(d)
	for {
		if cond() {
			return true
		}
		if time.Now().After(dl) {
			return false
		}
		time.Sleep(500 * time.Microsecond)
	}
}

// ChaosDebugger is a Debugger (public API) that turns the library's log calls into scheduling
// points: about one call in P sleeps for a few dozen to a few hundred microseconds. It widens
// every window that contains a log call without knowing where the windows are.
type ChaosDebugger struct {
	P    int
	seed uint64
}

func (d *ChaosDebugger) Log(main string, v ...any) {
	if d.P <= 0 {
		return
	}
	// xorshift: cheap, racy on purpose (any value will do)
	x := d.seed*6364136223846793005 + 1442695040888963407
	d.seed = x
	if int((x>>33)%uint64(d.P)) == 0 {
		time.Sleep(time.Duration(20+(x>>40)%280) * time.Microsecond)
	}
}
func (d *ChaosDebugger) WithContext(string) sio.Debugger                       { return d }
func (d *ChaosDebugger) WithDynamicContext(string, func() string) sio.Debugger { return d }

// SlowRT is an http.RoundTripper (ClientConfig.HTTPTransport, public API) on which every request spends D before it is
// handed to the real transport - connection set-up latency, as a client behind a slow proxy or resolver sees it. The
// request body is not read during that time.
type SlowRT struct {
	D    time.Duration
	Base http.RoundTripper
}

func (t *SlowRT) RoundTrip(r *http.Request) (*http.Response, error) {
	time.Sleep(t.D)
	b := t.Base
	if b == nil {
		b = http.DefaultTransport
	}
	return b.RoundTrip(r)
}
