//go:build verif

// Drivers for C07 (transport upgrade) and C14 (heartbeats) on real Engine.IO
// servers and clients: numbered traffic in both directions across the
// upgrade, bursts released exactly at the swaps (gates), failing upgrades,
// silently black-holed links (fault proxy), long idle live sessions.
package c07

import (
	"context"
	"fmt"
	"math/rand"
	"net"
	"net/http"
	"net/http/httptest"
	"path/filepath"
	"strings"
	"sync"
	"sync/atomic"
	"testing"
	"time"

	eio "github.com/karagenc/socket.io-go/engine.io"
	"github.com/karagenc/socket.io-go/engine.io/parser"
	"nhooyr.io/websocket"

	"verif/harness/gates"
	"verif/harness/proxy"
	"verif/harness/rig"
	"verif/harness/vres"
	"verif/harness/vtrace"
)

func keep(name string) bool {
	return strings.HasPrefix(name, "eio.") || strings.HasPrefix(name, "proxy.") || name == "reset" || name == "quiesce" || name == "note"
}

func tags(v any) (any, bool) {
	ps, ok := v.([]*parser.Packet)
	if !ok {
		return nil, false
	}
	out := make([]string, len(ps))
	for i, p := range ps {
		if p.Type == parser.PacketTypeMessage {
			d := p.Data
			if len(d) > 24 {
				d = d[:24]
			}
			out[i] = string(d)
		} else {
			out[i] = fmt.Sprintf("ctl:%d", p.Type)
		}
	}
	return out, true
}

type sess struct {
	srv    *eio.Server
	ts     *httptest.Server
	px     *proxy.Proxy
	ss     eio.ServerSocket
	cs     eio.ClientSocket
	mu     sync.Mutex
	gotUp  map[string]int
	gotDn  map[string]int
	sClose string
	cClose string
	upDone chan string
}

type dialMode int

const (
	dialOK dialMode = iota
	dialRefuse
	dialStall
	dialCutAfterProbe
)

// failingWS makes the websocket candidate fail in a chosen way
type failingRT struct {
	mode dialMode
	base http.RoundTripper
}

func (f *failingRT) RoundTrip(r *http.Request) (*http.Response, error) {
	if strings.EqualFold(r.Header.Get("Upgrade"), "websocket") {
		switch f.mode {
		case dialRefuse:
			return nil, fmt.Errorf("refused by the harness")
		case dialStall:
			<-r.Context().Done()
			return nil, r.Context().Err()
		}
	}
	return f.base.RoundTrip(r)
}

// preDial, when set, sees the session after its proxy exists and before the client dials
var preDial func(s *sess)

func newSess(transports []string, scfg eio.ServerConfig, mode dialMode, usePx bool, upTimeout time.Duration) (*sess, error) {
	s := &sess{gotUp: map[string]int{}, gotDn: map[string]int{}, upDone: make(chan string, 2)}
	socks := make(chan eio.ServerSocket, 2)
	scfg.WebSocketAcceptOptions = &websocket.AcceptOptions{CompressionMode: websocket.CompressionDisabled}
	if scfg.PingInterval == 0 {
		scfg.PingInterval, scfg.PingTimeout = 20*time.Second, 20*time.Second
	}
	clientOnly := upTimeout < 0 // a negative value shortens the client's upgrade time-out only
	if clientOnly {
		upTimeout = -upTimeout
	}
	if upTimeout > 0 && !clientOnly {
		scfg.UpgradeTimeout = upTimeout
	}
	s.srv = eio.NewServer(func(ss eio.ServerSocket) *eio.Callbacks {
		socks <- ss
		return &eio.Callbacks{
			OnPacket: func(ps ...*parser.Packet) {
				s.mu.Lock()
				for _, p := range ps {
					if p.Type == parser.PacketTypeMessage {
						s.gotUp[string(p.Data)]++
					}
				}
				s.mu.Unlock()
			},
			OnClose: func(r eio.Reason, err error) { s.mu.Lock(); s.sClose = string(r); s.mu.Unlock() },
		}
	}, &scfg)
	if err := s.srv.Run(); err != nil {
		return nil, err
	}
	s.ts = httptest.NewServer(s.srv)
	url := s.ts.URL
	if usePx {
		px, err := proxy.New(strings.TrimPrefix(url, "http://"))
		if err != nil {
			return nil, err
		}
		s.px = px
		url = px.URL()
		if preDial != nil {
			preDial(s)
		}
	}
	ccfg := &eio.ClientConfig{Transports: transports, UpgradeDone: func(name string) { s.upDone <- name }}
	if upTimeout > 0 {
		ccfg.UpgradeTimeout = upTimeout
	}
	dopts := &websocket.DialOptions{CompressionMode: websocket.CompressionDisabled}
	if mode == dialRefuse || mode == dialStall {
		dopts.HTTPClient = &http.Client{Transport: &failingRT{mode: mode, base: &http.Transport{DialContext: (&net.Dialer{}).DialContext}}}
	}
	ccfg.WebSocketDialOptions = dopts
	cb := &eio.Callbacks{
		OnPacket: func(ps ...*parser.Packet) {
			s.mu.Lock()
			for _, p := range ps {
				if p.Type == parser.PacketTypeMessage {
					s.gotDn[string(p.Data)]++
				}
			}
			s.mu.Unlock()
		},
		OnClose: func(r eio.Reason, err error) { s.mu.Lock(); s.cClose = string(r); s.mu.Unlock() },
	}
	cs, err := eio.Dial(url, cb, ccfg)
	if err != nil {
		s.close()
		return nil, err
	}
	s.cs = cs
	select {
	case s.ss = <-socks:
	case <-time.After(3 * time.Second):
		s.close()
		return nil, fmt.Errorf("no server socket")
	}
	return s, nil
}

func (s *sess) close() {
	if s.cs != nil {
		s.cs.Close()
	}
	if s.px != nil {
		s.px.Close()
	}
	s.srv.Close()
	s.ts.CloseClientConnections()
	s.ts.Close()
}

func msg(dir string, n int, binary bool) *parser.Packet {
	p, _ := parser.NewPacket(parser.PacketTypeMessage, binary, []byte(fmt.Sprintf("%s%d", dir, n)))
	return p
}

type env struct {
	res  *vres.Result
	w    *vtrace.Writer
	scen int
}

func (e *env) begin(cfg string, first, final string, expectClose, dead bool, pi, pt, slack time.Duration, extra ...any) int {
	e.scen++
	vtrace.Take()
	vtrace.ResetIDs()
	kv := append([]any{"scenario", e.scen, "cfg", cfg, "t0", vtrace.NowUS(), "first", first, "final", final, "expectClose", expectClose, "dead", dead,
		"pi", int64(pi / time.Microsecond), "pt", int64(pt / time.Microsecond), "slack", int64(slack / time.Microsecond)}, extra...)
	vtrace.Emit("reset", kv...)
	return e.scen
}
func (e *env) end() { e.w.Write(vtrace.Take()) }

// traffic: numbered messages in both directions until stop is closed; returns how many were sent each way
func traffic(s *sess, rng *rand.Rand, stop chan struct{}, gap time.Duration) (up, dn *int64, wg *sync.WaitGroup) {
	up, dn, wg = new(int64), new(int64), &sync.WaitGroup{}
	seed := rng.Int63()
	for d := 0; d < 2; d++ {
		d := d
		wg.Add(1)
		go func() {
			defer wg.Done()
			r := rand.New(rand.NewSource(seed + int64(d)))
			for n := 1; ; n++ {
				select {
				case <-stop:
					return
				default:
				}
				k := 1 + r.Intn(3) // small bursts in one Send
				if d == 0 {
					ps := make([]*parser.Packet, k)
					for i := range ps {
						ps[i] = msg("u", int(atomic.AddInt64(up, 1)), r.Intn(3) == 0)
					}
					s.cs.Send(ps...)
				} else {
					ps := make([]*parser.Packet, k)
					for i := range ps {
						ps[i] = msg("d", int(atomic.AddInt64(dn, 1)), r.Intn(3) == 0)
					}
					s.ss.Send(ps...)
				}
				time.Sleep(gap + time.Duration(r.Intn(300))*time.Microsecond)
			}
		}()
	}
	return
}

func (s *sess) counts() (up, dn int, dupUp, dupDn []string) {
	s.mu.Lock()
	defer s.mu.Unlock()
	for k, v := range s.gotUp {
		up++
		if v > 1 {
			dupUp = append(dupUp, k)
		}
	}
	for k, v := range s.gotDn {
		dn++
		if v > 1 {
			dupDn = append(dupDn, k)
		}
	}
	return
}

func (e *env) judge(id int, s *sess, up, dn int64, expectFinal string, repro any) {
	rig.WaitUntil(4*time.Second, func() bool { u, d, _, _ := s.counts(); return int64(u) >= up && int64(d) >= dn })
	time.Sleep(30 * time.Millisecond)
	u, d, du, dd := s.counts()
	st, ct := s.ss.TransportName(), s.cs.TransportName()
	vtrace.Emit("quiesce", "serverTransport", st, "clientTransport", ct, "up", u, "down", d, "bothWays", false)
	if int64(u) != up || int64(d) != dn || len(du)+len(dd) > 0 {
		e.res.Violation("c07-delivery", fmt.Sprintf("sent up/down %d/%d, delivered %d/%d, duplicates %v %v (transports %s/%s)", up, dn, u, d, du, dd, st, ct), id, repro)
	}
	if st != expectFinal || ct != expectFinal {
		e.res.Violation("c07-transport", fmt.Sprintf("expected both sides on %s, got server=%s client=%s", expectFinal, st, ct), id, repro)
	}
	s.mu.Lock()
	sc, cc := s.sClose, s.cClose
	s.mu.Unlock()
	if sc != "" || cc != "" {
		e.res.Violation("c07-closed", fmt.Sprintf("the session was closed (server: %q, client: %q)", sc, cc), id, repro)
	}
}

// a successful upgrade under continuous traffic; optionally bursts placed exactly at the swaps
func (e *env) upgradeOK(rng *rand.Rand, gated string) {
	id := e.begin("upgrade-"+gated, "polling", "websocket", false, false, 0, 0, 0)
	ctl := gates.New()
	// "client-slow": the probe was answered in time, the swap itself comes later than the upgrade time-out
	// (a request in flight can delay it that long): the upgrade must still complete, nothing is lost
	slow := gated == "client-slow"
	upTO := time.Duration(0)
	if slow {
		gated, upTO = "client", -time.Second // (the client's time-out only; one second is the shortest the configuration accepts)
	}
	// "client-storm": several goroutines send without pause while the client swaps, so that some of them wait for
	// the transport lock when the swap takes it and run the moment it is given back
	storm := gated == "client-storm"
	if storm {
		gated = "client"
	}
	// "client-swapped": the client stands between its swap and the UPGRADE packet (under the transport lock).
	// Sends issued now must wait for the lock and leave after UPGRADE; one that got through would reach the
	// server's probe handler, which closes the candidate
	swapped := gated == "client-swapped"
	if gated != "none" {
		want := map[string]string{"server": "eio.s.upgrade.beforeSwap", "client": "eio.c.upgrade.beforeSwap", "client-swapped": "eio.c.upgrade.beforeUpgradePacket"}[gated]
		ctl.HoldIf(func(pt string, k any) bool { return pt == want })
		ctl.Install()
		defer gates.Uninstall()
	}
	s, err := newSess([]string{"polling", "websocket"}, eio.ServerConfig{}, dialOK, false, upTO)
	if err != nil {
		e.res.Inconclusive("rig", err.Error(), id)
		e.end()
		return
	}
	defer s.close()
	stop := make(chan struct{})
	up, dn, wg := traffic(s, rng, stop, 200*time.Microsecond)
	if gated != "none" {
		if wt := ctl.WaitFor(func(*gates.Waiter) bool { return true }, 4*time.Second); wt != nil {
			if slow {
				time.Sleep(2 * time.Second)
			}
			if storm {
				for g := 0; g < 6; g++ {
					wg.Add(1)
					go func() {
						defer wg.Done()
						for {
							select {
							case <-stop:
								return
							default:
							}
							s.cs.Send(msg("u", int(atomic.AddInt64(up, 1)), false))
						}
					}()
				}
				time.Sleep(15 * time.Millisecond)
			}
			if swapped {
				// the client's Sends block on the lock (that is the point): issue them on their own goroutines
				for i := 0; i < 4; i++ {
					wg.Add(1)
					go func() {
						defer wg.Done()
						s.cs.Send(msg("u", int(atomic.AddInt64(up, 1)), false))
					}()
				}
				time.Sleep(30 * time.Millisecond)
			}
			// a burst in both directions exactly while one side stands before its swap
			for i := 0; i < 5 && !swapped; i++ {
				s.cs.Send(msg("u", int(atomic.AddInt64(up, 1)), i%2 == 0))
				s.ss.Send(msg("d", int(atomic.AddInt64(dn, 1)), i%2 == 1))
			}
			ctl.OpenAll()
		} else {
			e.res.Inconclusive("c07", "swap point never reached", id)
		}
	}
	select {
	case <-s.upDone:
	case <-time.After(5 * time.Second):
		e.res.Inconclusive("c07", "upgrade did not complete", id)
	}
	time.Sleep(time.Duration(5+rng.Intn(20)) * time.Millisecond)
	close(stop)
	wg.Wait()
	e.judge(id, s, atomic.LoadInt64(up), atomic.LoadInt64(dn), "websocket", gated)
	e.end()
	e.res.Case(fmt.Sprint("upgrade", gated, rng.Int63()), true)
}

// an upgrade attempt that fails before the commit point: the session stays on polling and keeps working
func (e *env) upgradeFail(rng *rand.Rand, mode dialMode, name string) {
	id := e.begin("upgrade-fail-"+name, "polling", "polling", false, false, 0, 0, 0)
	s, err := newSess([]string{"polling", "websocket"}, eio.ServerConfig{}, mode, false, time.Second)
	if err != nil {
		e.res.Inconclusive("rig", err.Error(), id)
		e.end()
		return
	}
	defer s.close()
	stop := make(chan struct{})
	up, dn, wg := traffic(s, rng, stop, 2*time.Millisecond)
	wait := 300 * time.Millisecond
	if mode == dialStall {
		wait = 1300 * time.Millisecond // past the upgrade time-out
	}
	time.Sleep(wait)
	close(stop)
	wg.Wait()
	e.judge(id, s, atomic.LoadInt64(up), atomic.LoadInt64(dn), "polling", name)
	e.end()
	e.res.Case("upgrade-fail-"+name, true)
}

// settled transports, no upgrade
func (e *env) settled(rng *rand.Rand, tr string) {
	id := e.begin("settled-"+tr, tr, tr, false, false, 0, 0, 0)
	s, err := newSess([]string{tr}, eio.ServerConfig{}, dialOK, false, 0)
	if err != nil {
		e.res.Inconclusive("rig", err.Error(), id)
		e.end()
		return
	}
	defer s.close()
	stop := make(chan struct{})
	up, dn, wg := traffic(s, rng, stop, 300*time.Microsecond)
	time.Sleep(60 * time.Millisecond)
	close(stop)
	wg.Wait()
	e.judge(id, s, atomic.LoadInt64(up), atomic.LoadInt64(dn), tr, tr)
	e.end()
	e.res.Case("settled-"+tr, true)
}

// ---------------------------------------------------------------------------
// C14

func lastEvent(name string) bool {
	rs := vtrace.Snapshot()
	for i := len(rs) - 1; i >= 0; i-- {
		if rs[i]["ev"] == name {
			return true
		}
	}
	return false
}

// the link is silently black-holed at a chosen moment; both sides must close with `ping timeout` in time
func (e *env) dead(tr []string, mode int32, when string, pi, pt time.Duration) {
	const slack = 700 * time.Millisecond
	first := tr[0]
	id := e.begin(fmt.Sprintf("dead-%s-%d-%s", strings.Join(tr, "+"), mode, when), first, first, true, true, pi, pt, slack)
	// "upgrade" on an upgrading session: the link goes silent exactly when the client's websocket handshake leaves
	// (the proxy swallows it and everything after it): the upgrade stays pending for ever
	var holed int32
	if len(tr) > 1 && when == "upgrade" {
		preDial = func(s *sess) {
			s.px.HoleOnWebsocketHandshake(mode, func() {
				vtrace.Emit("proxy.blackhole", "t", vtrace.NowUS(), "mode", int(mode))
				atomic.StoreInt32(&holed, 1)
			})
		}
		defer func() { preDial = nil }()
	}
	s, err := newSess(tr, eio.ServerConfig{PingInterval: pi, PingTimeout: pt}, dialOK, true, 0)
	if err != nil {
		e.res.Inconclusive("rig", err.Error(), id)
		e.end()
		return
	}
	defer s.close()
	if len(tr) > 1 && when != "upgrade" {
		// an upgraded session, on a link with some latency (a PONG takes longer than the server needs to start waiting for it)
		select {
		case <-s.upDone:
		case <-time.After(4 * time.Second):
		}
		s.px.Delay(3 * time.Millisecond)
	}
	switch when {
	case "after-ping":
		rig.WaitUntil(pi+2*time.Second, func() bool { return lastEvent("eio.s.ping") })
	case "after-pong":
		if len(tr) > 1 {
			// the client's answer has crossed the link (what the server's own record says is not trusted here)
			rig.WaitUntil(pi+2*time.Second, func() bool { return lastEvent("eio.c.ping") })
			time.Sleep(12 * time.Millisecond)
		} else {
			rig.WaitUntil(pi+2*time.Second, func() bool { return lastEvent("eio.s.pong") })
		}
	case "early":
		time.Sleep(pi / 3)
	case "upgrade":
		if len(tr) > 1 {
			rig.WaitUntil(3*time.Second, func() bool { return atomic.LoadInt32(&holed) == 1 })
		} else {
			time.Sleep(3 * time.Millisecond)
		}
	}
	if atomic.LoadInt32(&holed) == 0 {
		s.px.Blackhole(mode)
		vtrace.Emit("proxy.blackhole", "t", vtrace.NowUS(), "mode", int(mode))
	}
	// one-way holes are noticed by the second side up to one interval later
	limit := 2*pi + pt + slack + 500*time.Millisecond
	rig.WaitUntil(limit, func() bool { s.mu.Lock(); defer s.mu.Unlock(); return s.sClose != "" && s.cClose != "" })
	time.Sleep(20 * time.Millisecond)
	s.mu.Lock()
	sc, cc := s.sClose, s.cClose
	s.mu.Unlock()
	vtrace.Emit("quiesce", "serverTransport", "", "clientTransport", "", "up", 0, "down", 0, "bothWays", mode == 1)
	ok := sc != "" && cc != "" && (sc == "ping timeout" || cc == "ping timeout")
	if mode == 1 {
		ok = sc == "ping timeout" && cc == "ping timeout"
	}
	if !ok {
		e.res.Violation("c14-dead-not-detected", fmt.Sprintf("black hole (mode %d, %s, %v): server close reason %q, client close reason %q after %v", mode, when, tr, sc, cc, limit), id, nil)
	}
	e.end()
	e.res.Case(fmt.Sprint("dead", tr, mode, when, pi, pt), true)
}

// an undisturbed session idles for several heartbeat periods with sparse traffic: never closed
func (e *env) live(rng *rand.Rand, tr []string, pi, pt time.Duration, periods int) {
	final := tr[len(tr)-1]
	id := e.begin("live-"+strings.Join(tr, "+"), tr[0], final, false, false, pi, pt, 0)
	s, err := newSess(tr, eio.ServerConfig{PingInterval: pi, PingTimeout: pt}, dialOK, false, 0)
	if err != nil {
		e.res.Inconclusive("rig", err.Error(), id)
		e.end()
		return
	}
	defer s.close()
	if len(tr) > 1 {
		select {
		case <-s.upDone:
		case <-time.After(4 * time.Second):
		}
	}
	var up, dn int64
	end := time.Now().Add(time.Duration(periods) * pi)
	for time.Now().Before(end) {
		time.Sleep(time.Duration(rng.Intn(int(pi/2))) + 20*time.Millisecond) // traffic at random phases of the ping schedule
		up++
		dn++
		s.cs.Send(msg("u", int(up), false))
		s.ss.Send(msg("d", int(dn), false))
	}
	e.judge(id, s, up, dn, final, tr)
	e.end()
	e.res.Case(fmt.Sprint("live", tr, pi, pt), true)
}

// The same situation built step by step with a protocol-level client, so that it does not depend on who wins a race
// inside the Go client: polling handshake, one pending poll, websocket probe, the poll is flushed with a NOOP and no
// further poll is made; the next PING is then parked in the polling queue; only now the UPGRADE packet is sent. The
// parked PING has to come over the websocket; the peer answers it, so nothing may be closed.
func (e *env) pingParkedRaw(pi, pt time.Duration) {
	id := e.begin("live-ping-parked-at-upgrade-raw", "polling", "websocket", false, false, pi, pt, 0)
	var mu sync.Mutex
	sClose := ""
	var ssock eio.ServerSocket
	scfg := eio.ServerConfig{PingInterval: pi, PingTimeout: pt, UpgradeTimeout: 10 * time.Second,
		WebSocketAcceptOptions: &websocket.AcceptOptions{CompressionMode: websocket.CompressionDisabled}}
	srv := eio.NewServer(func(ss eio.ServerSocket) *eio.Callbacks {
		mu.Lock()
		ssock = ss
		mu.Unlock()
		return &eio.Callbacks{OnClose: func(r eio.Reason, err error) { mu.Lock(); sClose = string(r); mu.Unlock() }}
	}, &scfg)
	if err := srv.Run(); err != nil {
		e.res.Inconclusive("rig", err.Error(), id)
		e.end()
		return
	}
	ts := httptest.NewServer(srv)
	defer func() { srv.Close(); ts.CloseClientConnections(); ts.Close() }()
	fail := func(why string) {
		e.res.Inconclusive("c14", "raw upgrade: "+why, id)
		vtrace.Take()
	}
	get := func(q string) (string, error) {
		resp, err := http.Get(ts.URL + "/?EIO=4&transport=polling" + q)
		if err != nil {
			return "", err
		}
		defer resp.Body.Close()
		b := make([]byte, 4096)
		n, _ := resp.Body.Read(b)
		return string(b[:n]), nil
	}
	open, err := get("")
	i := strings.Index(open, `"sid":"`)
	if err != nil || i < 0 {
		fail("no handshake")
		return
	}
	sid := open[i+7:]
	sid = sid[:strings.IndexByte(sid, '"')]
	polled := make(chan string, 1)
	go func() { b, _ := get("&sid=" + sid); polled <- b }()
	time.Sleep(30 * time.Millisecond) // the poll is pending
	ctx, cancel := context.WithTimeout(context.Background(), pi+pt+8*time.Second)
	defer cancel()
	conn, _, err := websocket.Dial(ctx, "ws"+strings.TrimPrefix(ts.URL, "http")+"/?EIO=4&transport=websocket&sid="+sid,
		&websocket.DialOptions{CompressionMode: websocket.CompressionDisabled})
	if err != nil {
		fail("websocket dial: " + err.Error())
		return
	}
	defer conn.Close(websocket.StatusNormalClosure, "")
	conn.Write(ctx, websocket.MessageText, []byte("2probe"))
	if _, b, err := conn.Read(ctx); err != nil || string(b) != "3probe" {
		fail("no probe answer")
		return
	}
	select {
	case <-polled: // flushed (NOOP); no further poll from here on
	case <-time.After(3 * time.Second):
		fail("the pending poll was not flushed")
		return
	}
	// the next PING goes to the polling transport, where nobody asks for it
	parked := rig.WaitUntil(pi+2*time.Second, func() bool {
		for _, r := range vtrace.Snapshot() {
			if r["ev"] == "eio.s.send" && fmt.Sprint(r["tr"]) == "polling" && strings.Contains(fmt.Sprint(r["pk"]), "ctl:2") {
				return true
			}
		}
		return false
	})
	if !parked {
		fail("no PING was sent while the upgrade was pending")
		return
	}
	time.Sleep(20 * time.Millisecond)
	vtrace.Emit("eio.c.swap", "o", 0, "to", "websocket")
	conn.Write(ctx, websocket.MessageText, []byte("5"))
	// answer every PING that comes over the websocket until well past the ping time-out (the reads run under the
	// long context: this websocket library closes a connection whose read context expires)
	frames := make(chan string, 16)
	go func() {
		for {
			_, b, err := conn.Read(ctx)
			if err != nil {
				close(frames)
				return
			}
			frames <- string(b)
		}
	}()
	deadline := time.After(pt + 700*time.Millisecond)
	gotPing := false
loop:
	for {
		select {
		case f, ok := <-frames:
			if !ok {
				break loop
			}
			if f == "2" {
				gotPing = true
				vtrace.Emit("eio.c.ping", "o", 0, "t", vtrace.NowUS())
				conn.Write(ctx, websocket.MessageText, []byte("3"))
			}
		case <-deadline:
			break loop
		}
	}
	time.Sleep(30 * time.Millisecond)
	mu.Lock()
	sc, ss := sClose, ssock
	mu.Unlock()
	st := ""
	if ss != nil {
		st = ss.TransportName()
	}
	vtrace.Emit("quiesce", "serverTransport", st, "clientTransport", "websocket", "up", 0, "down", 0, "bothWays", false)
	if sc != "" || !gotPing {
		e.res.Violation("c14-parked-ping-lost", fmt.Sprintf("a PING parked on long-polling when the UPGRADE packet arrived: received over the websocket: %v; the server closed the live peer with %q", gotPing, sc), id, nil)
	}
	e.end()
	e.res.Case("ping-parked-raw", true)
}

// a heartbeat that falls into the upgrade window (queued on polling after the client already left it)
// must reach the client over the new transport: a live peer is not killed by upgrading
func (e *env) pingInUpgradeWindow(pi, pt time.Duration) {
	id := e.begin("live-ping-in-upgrade-window", "polling", "websocket", false, false, pi, pt, 0)
	ctl := gates.New()
	ctl.HoldIf(func(pt string, k any) bool { return pt == "eio.s.upgrade.beforeSwap" })
	ctl.Install()
	defer gates.Uninstall()
	s, err := newSess([]string{"polling", "websocket"}, eio.ServerConfig{PingInterval: pi, PingTimeout: pt, UpgradeTimeout: 10 * time.Second}, dialOK, false, 0)
	if err != nil {
		e.res.Inconclusive("rig", err.Error(), id)
		e.end()
		return
	}
	defer s.close()
	wt := ctl.WaitFor(func(*gates.Waiter) bool { return true }, 4*time.Second)
	if wt == nil {
		e.res.Inconclusive("c14", "server never reached its swap point", id)
	}
	// the client is on websocket already, the server still on polling: wait for the next PING to be queued there
	rig.WaitUntil(pi+2*time.Second, func() bool { return lastEvent("eio.s.ping") })
	time.Sleep(30 * time.Millisecond)
	ctl.OpenAll()
	// well past the ping time-out: the peer answered, so nothing may be closed
	time.Sleep(pt + 600*time.Millisecond)
	s.cs.Send(msg("u", 1, false))
	s.ss.Send(msg("d", 1, false))
	e.judge(id, s, 1, 1, "websocket", "ping-in-upgrade-window")
	e.end()
	e.res.Case("ping-in-upgrade-window", true)
}

func TestC14(t *testing.T) {
	out := vres.OutDir()
	res := vres.New()
	res.Rule = "dead: one session per (transport, black-hole direction, moment relative to the ping schedule, PI/PT) behind a byte-swallowing proxy; live: undisturbed sessions idling for >= 5 heartbeat periods with traffic at random phases; all distinct"
	vtrace.Install()
	defer vtrace.Uninstall()
	vtrace.SetFilter(keep)
	vtrace.Convert = tags
	w, err := vtrace.NewWriter(filepath.Join(out, "trace.ndjson"))
	if err != nil {
		t.Fatal(err)
	}
	e := &env{res: res, w: w}
	rng := rand.New(rand.NewSource(vres.Seed()))
	sec := time.Second
	type dc struct {
		tr   []string
		mode int32
		when string
	}
	cases := []dc{
		{[]string{"websocket"}, 1, "after-pong"}, {[]string{"websocket"}, 1, "after-ping"},
		{[]string{"polling"}, 1, "after-pong"}, {[]string{"polling"}, 1, "early"},
		{[]string{"websocket"}, 2, "after-pong"}, {[]string{"websocket"}, 3, "early"},
		{[]string{"polling", "websocket"}, 1, "after-pong"}, // an upgraded session
		{[]string{"polling", "websocket"}, 1, "upgrade"},    // the link goes silent while the upgrade is pending
	}
	if vres.Tier() == "thorough" {
		for _, tr := range [][]string{{"websocket"}, {"polling"}, {"polling", "websocket"}} {
			for _, m := range []int32{1, 2, 3} {
				for _, wh := range []string{"after-ping", "after-pong", "early", "upgrade"} {
					cases = append(cases, dc{tr, m, wh})
				}
			}
		}
	}
	// run the slow scenarios a few at a time? They share one trace: sequential.
	for _, c := range cases {
		e.dead(c.tr, c.mode, c.when, sec, sec)
	}
	if vres.Tier() == "thorough" {
		e.dead([]string{"websocket"}, 1, "after-pong", 2*sec, sec)
		e.dead([]string{"polling"}, 1, "after-ping", sec, 3*sec)
	}
	e.pingInUpgradeWindow(sec, sec)
	e.pingParkedRaw(sec, sec)
	e.live(rng, []string{"websocket"}, sec, sec, vres.Pick(5, 10))
	e.live(rng, []string{"polling"}, sec, sec, vres.Pick(5, 10))
	if vres.Tier() == "thorough" {
		e.live(rng, []string{"polling", "websocket"}, sec, sec, 10)
		e.live(rng, []string{"websocket"}, 2*sec, sec, 6)
	}
	res.Scenarios = e.scen
	w.Close()
	if err := res.Write(out, "result.json"); err != nil {
		t.Fatal(err)
	}
}

func TestC07(t *testing.T) {
	out := vres.OutDir()
	res := vres.New()
	res.Rule = "one case = one real Engine.IO session with numbered text/binary traffic in both directions: polling->websocket upgrades (ungated, or with a burst placed while the server / the client stands before its swap, or with six goroutines sending without pause across the client's swap, or with Sends issued while the client stands between its swap and the UPGRADE packet), failing upgrades (refused, stalled past the upgrade time-out), settled transports; distinct by mode and traffic seed"
	vtrace.Install()
	defer vtrace.Uninstall()
	vtrace.SetFilter(keep)
	vtrace.Convert = tags
	w, err := vtrace.NewWriter(filepath.Join(out, "trace.ndjson"))
	if err != nil {
		t.Fatal(err)
	}
	e := &env{res: res, w: w}
	rng := rand.New(rand.NewSource(vres.Seed()))
	for i := 0; i < vres.Pick(12, 300); i++ {
		k := i % 4
		if k == 3 && i > 24 {
			k = i % 3 // (the slow swap costs two seconds each: a few are enough)
		}
		e.upgradeOK(rng, []string{"none", "server", "client", "client-slow"}[k])
	}
	for i := 0; i < vres.Pick(4, 40); i++ {
		e.upgradeOK(rng, "client-storm")
	}
	for i := 0; i < vres.Pick(3, 30); i++ {
		e.upgradeOK(rng, "client-swapped")
	}
	e.upgradeFail(rng, dialRefuse, "refused")
	e.upgradeFail(rng, dialStall, "stalled")
	for _, tr := range []string{"polling", "websocket"} {
		e.settled(rng, tr)
	}
	res.Scenarios = e.scen
	w.Close()
	if err := res.Write(out, "result.json"); err != nil {
		t.Fatal(err)
	}
}

var _ = context.Background
