//go:build verif

// Driver for C17: the full request matrix against a real Engine.IO server,
// handshakes racing Server.Close (parked inside the Authenticator), and
// session-id uniqueness.
package c17

import (
	"context"
	"encoding/json"
	"fmt"
	"io"
	"net/http"
	"net/http/httptest"
	"nhooyr.io/websocket"
	"path/filepath"
	"strings"
	"sync"
	"sync/atomic"
	"testing"
	"time"

	eio "github.com/karagenc/socket.io-go/engine.io"
	"github.com/karagenc/socket.io-go/engine.io/parser"

	"verif/harness/vres"
	"verif/harness/vtrace"
)

type obs struct {
	newsock   int64
	closedcb  int64
	delivered int64
	mu        sync.Mutex
	closedSid map[string]bool
}

func newServer(cfg *eio.ServerConfig) (*eio.Server, *httptest.Server, *obs) {
	return newServerHook(cfg, nil)
}

// onSock, when set, runs inside the application's NewSocketCallback (a natural gate)
func newServerHook(cfg *eio.ServerConfig, onSock func()) (*eio.Server, *httptest.Server, *obs) {
	o := &obs{closedSid: map[string]bool{}}
	if cfg == nil {
		cfg = &eio.ServerConfig{}
	}
	cfg.PingInterval, cfg.PingTimeout = 20*time.Second, 20*time.Second
	srv := eio.NewServer(func(s eio.ServerSocket) *eio.Callbacks {
		atomic.AddInt64(&o.newsock, 1)
		if onSock != nil {
			onSock()
		}
		return &eio.Callbacks{
			OnPacket: func(ps ...*parser.Packet) {
				for _, p := range ps {
					if p.Type == parser.PacketTypeMessage {
						atomic.AddInt64(&o.delivered, 1)
					}
				}
			},
			OnClose: func(r eio.Reason, err error) {
				atomic.AddInt64(&o.closedcb, 1)
				o.mu.Lock()
				o.closedSid[s.ID()] = true
				o.mu.Unlock()
			},
		}
	}, cfg)
	if err := srv.Run(); err != nil {
		panic(err)
	}
	return srv, httptest.NewServer(srv), o
}

var client = &http.Client{Timeout: 8 * time.Second}

func handshake(url string) (sid string, err error) {
	resp, err := client.Get(url + "/?EIO=4&transport=polling")
	if err != nil {
		return "", err
	}
	b, _ := io.ReadAll(resp.Body)
	resp.Body.Close()
	i := strings.Index(string(b), `"sid":"`)
	if i < 0 {
		return "", fmt.Errorf("no sid in %q", b)
	}
	sid = string(b)[i+7:]
	return sid[:strings.IndexByte(sid, '"')], nil
}

func matrix(w *vtrace.Writer, res *vres.Result) {
	methods := []string{"GET", "POST", "PUT", "DELETE", "OPTIONS", "HEAD"}
	eios := map[string]string{"absent": "", "3": "3", "4": "4", "5": "5", "junk": "4x"}
	transports := map[string]string{"absent": "", "polling": "polling", "websocket": "websocket", "junk": "pollingg"}
	sids := []string{"absent", "unknown", "live", "closed"}
	for _, closed := range []bool{false, true} {
		for _, method := range methods {
			for ek, ev := range eios {
				for tk, tv := range transports {
					for _, sk := range sids {
						for _, b64 := range []bool{false, true} {
							for _, jsonp := range []bool{false, true} {
								one(w, res, closed, method, ek, ev, tk, tv, sk, b64, jsonp)
							}
						}
					}
				}
			}
		}
	}
}

func one(w *vtrace.Writer, res *vres.Result, closed bool, method, ek, ev, tk, tv, sk string, b64, jsonp bool) {
	srv, ts, o := newServer(nil)
	defer func() { srv.Close(); ts.CloseClientConnections(); ts.Close() }()
	sid := ""
	var live eio.ServerSocket
	_ = live
	switch sk {
	case "unknown":
		sid = "AAAAAAAAAAAAAAAAAAAA"
	case "live", "closed":
		s, err := handshake(ts.URL)
		if err != nil {
			res.Inconclusive("matrix", err.Error(), 0)
			return
		}
		sid = s
		if sk == "closed" {
			// the client closes its session: POST a CLOSE packet
			r, err := client.Post(ts.URL+"/?EIO=4&transport=polling&sid="+sid, "text/plain", strings.NewReader("1"))
			if err == nil {
				io.Copy(io.Discard, r.Body)
				r.Body.Close()
			}
			dl := time.Now().Add(2 * time.Second)
			for eio.VerifStoreSize(srv) != 0 && time.Now().Before(dl) {
				time.Sleep(time.Millisecond)
			}
		}
	}
	if closed {
		srv.Close()
		dl := time.Now().Add(2 * time.Second)
		for eio.VerifStoreSize(srv) != 0 && time.Now().Before(dl) {
			time.Sleep(time.Millisecond)
		}
	}
	q := []string{}
	if ev != "" {
		q = append(q, "EIO="+ev)
	}
	if tv != "" {
		q = append(q, "transport="+tv)
	}
	if sid != "" {
		q = append(q, "sid="+sid)
	}
	if b64 {
		q = append(q, "b64=1")
	}
	if jsonp {
		q = append(q, "j=0")
	}
	body := io.Reader(nil)
	ctype := ""
	if method == "POST" {
		if jsonp {
			body = strings.NewReader("d=4hello")
			ctype = "application/x-www-form-urlencoded"
		} else {
			body = strings.NewReader("4hello")
			ctype = "text/plain"
		}
	}
	newBefore, closedBefore, delivBefore := atomic.LoadInt64(&o.newsock), atomic.LoadInt64(&o.closedcb), atomic.LoadInt64(&o.delivered)
	storeBefore := eio.VerifStoreSize(srv)
	req, _ := http.NewRequest(method, ts.URL+"/?"+strings.Join(q, "&"), body)
	if ctype != "" {
		req.Header.Set("Content-Type", ctype)
	}
	// a GET on a live session is a long poll: give it something to return
	if sk == "live" && method == "GET" && !closed {
		go func() {
			time.Sleep(30 * time.Millisecond)
			// any data packet: post one through a second request is not possible (it would be the same session); the
			// server has nothing to say, so we rely on the answer arriving when the test server shuts the poll down.
		}()
	}
	status, code, opensid := -1, -1, false
	cl := &http.Client{Timeout: 400 * time.Millisecond}
	resp, err := cl.Do(req)
	if err == nil {
		b, _ := io.ReadAll(resp.Body)
		resp.Body.Close()
		status = resp.StatusCode
		var se struct {
			Code *int `json:"code"`
		}
		if json.Unmarshal(b, &se) == nil && se.Code != nil {
			code = *se.Code
		}
		opensid = strings.Contains(strings.ReplaceAll(string(b), `\`, ""), `"sid":"`) // JSONP bodies are JS-escaped
	} else if sk == "live" && method == "GET" && tk == "polling" && ek == "4" && !closed {
		// the long poll is legitimately pending (nothing to send): that is the "poll" effect
		status = 200
	} else {
		res.Inconclusive("matrix", err.Error(), 0)
		return
	}
	time.Sleep(2 * time.Millisecond)
	liveclosed := sk == "live" && !closed && atomic.LoadInt64(&o.closedcb) != closedBefore
	rec := vtrace.Rec{"ev": "req", "closed": closed, "method": method, "eio": ek, "transport": tk, "sid": sk, "b64": b64, "jsonp": jsonp,
		"status": status, "code": code, "newsock": atomic.LoadInt64(&o.newsock) - newBefore,
		"storedelta": eio.VerifStoreSize(srv) - storeBefore, "opensid": opensid, "liveclosed": liveclosed,
		"delivered": atomic.LoadInt64(&o.delivered) != delivBefore}
	w.Write([]vtrace.Rec{rec})
	res.Case(fmt.Sprint(closed, method, ek, tk, sk, b64, jsonp), true)
	if w.Lines()%500 == 3 {
		res.Sample(rec)
	}
}

// handshakes racing Close
func races(w *vtrace.Writer, res *vres.Result, n int) {
	for i := 0; i < n; i++ {
		parked := make(chan struct{}, 8)
		release := make(chan struct{})
		gate := i%2 == 0
		inAuth := i%4 == 0 // otherwise park inside the NewSocketCallback
		park := func() {
			parked <- struct{}{}
			<-release
		}
		cfg := &eio.ServerConfig{Authenticator: func(w http.ResponseWriter, r *http.Request) bool {
			if gate && inAuth {
				park()
			}
			return true
		}}
		var onSock func()
		if gate && !inAuth {
			onSock = park
		}
		srv, ts, o := newServerHook(cfg, onSock)
		nh := 1 + i%3
		var wg sync.WaitGroup
		for h := 0; h < nh; h++ {
			wg.Add(1)
			go func() {
				defer wg.Done()
				r, err := client.Get(ts.URL + "/?EIO=4&transport=polling")
				if err == nil {
					io.Copy(io.Discard, r.Body)
					r.Body.Close()
				}
			}()
		}
		if gate {
			for h := 0; h < nh; h++ {
				select {
				case <-parked:
				case <-time.After(3 * time.Second):
				}
			}
			srv.Close() // runs completely while the handshakes sit after their closed check
			close(release)
		} else {
			time.Sleep(time.Duration(i%7) * 100 * time.Microsecond)
			srv.Close()
		}
		wg.Wait()
		time.Sleep(20 * time.Millisecond)
		rec := vtrace.Rec{"ev": "race", "gate": gate, "inAuth": inAuth, "handshakes": nh, "storeafter": eio.VerifStoreSize(srv),
			"created": atomic.LoadInt64(&o.newsock), "closedcb": atomic.LoadInt64(&o.closedcb)}
		w.Write([]vtrace.Rec{rec})
		res.Case(fmt.Sprint("race", i), true)
		res.Sample(rec)
		ts.CloseClientConnections()
		ts.Close()
	}
}

func sidsBatch(w *vtrace.Writer, res *vres.Result, total int) {
	srv, ts, _ := newServer(nil)
	defer func() { srv.Close(); ts.Close() }()
	var mu sync.Mutex
	seen := map[string]bool{}
	var wg sync.WaitGroup
	for g := 0; g < 16; g++ {
		wg.Add(1)
		go func() {
			defer wg.Done()
			local := make([]string, 0, total/16)
			for i := 0; i < total/16; i++ {
				s, err := eio.VerifGenerateSID(srv)
				if err == nil {
					local = append(local, s)
				}
			}
			mu.Lock()
			for _, s := range local {
				seen[s] = true
			}
			mu.Unlock()
		}()
	}
	wg.Wait()
	n := total / 16 * 16
	w.Write([]vtrace.Rec{{"ev": "sids", "n": n, "distinct": len(seen)}})
	res.Case("sids", true)
}

func TestC17(t *testing.T) {
	out := vres.OutDir()
	res := vres.New()
	res.Rule = "req: every cell of closed x method{6} x EIO{absent,3,4,5,junk} x transport{absent,polling,websocket,junk} x sid{absent,unknown,live,closed} x b64 x jsonp, each against a fresh real server (3840 requests, all distinct); race: handshakes parked in the Authenticator while Close runs, and ungated concurrent handshakes + Close; sids: 16 goroutines generating session ids"
	w, err := vtrace.NewWriter(filepath.Join(out, "trace.ndjson"))
	if err != nil {
		t.Fatal(err)
	}
	w.Write([]vtrace.Rec{{"ev": "reset", "scenario": 1, "cfg": "matrix"}})
	matrix(w, res)
	res.Exhaustive = true
	wsFamily(w, res)
	races(w, res, vres.Pick(12, 120))
	sidsBatch(w, res, vres.Pick(100000, 1000000))
	w.Close()
	if err := res.Write(out, "result.json"); err != nil {
		t.Fatal(err)
	}
}

// ---- real websocket handshakes naming a session --------------------------------------

// wsFamily: for each state of the named session (unknown, closed, live on polling, live and already
// upgraded, live and opened directly on websocket) a real websocket handshake is attempted; when it is
// accepted the attacker's script continues (probe, UPGRADE packet). Afterwards the session is looked at.
func wsFamily(w *vtrace.Writer, res *vres.Result) {
	for _, state := range []string{"unknown", "closed", "polling", "upgraded", "wsdirect"} {
		for rep := 0; rep < 2; rep++ {
			wsOne(w, res, state, rep)
		}
	}
}

func wsOne(w *vtrace.Writer, res *vres.Result, state string, rep int) {
	var mu sync.Mutex
	var ssock eio.ServerSocket
	var sClosed bool
	var fromClient int64
	newsock := int64(0)
	cfg := &eio.ServerConfig{PingInterval: 20 * time.Second, PingTimeout: 20 * time.Second}
	srv := eio.NewServer(func(s eio.ServerSocket) *eio.Callbacks {
		atomic.AddInt64(&newsock, 1)
		mu.Lock()
		ssock = s
		mu.Unlock()
		return &eio.Callbacks{
			OnPacket: func(ps ...*parser.Packet) {
				for _, p := range ps {
					if p.Type == parser.PacketTypeMessage {
						atomic.AddInt64(&fromClient, 1)
					}
				}
			},
			OnClose: func(eio.Reason, error) { mu.Lock(); sClosed = true; mu.Unlock() },
		}
	}, cfg)
	if err := srv.Run(); err != nil {
		res.Inconclusive("ws", err.Error(), 0)
		return
	}
	ts := httptest.NewServer(srv)
	defer func() { srv.Close(); ts.CloseClientConnections(); ts.Close() }()
	sid := "AAAAAAAAAAAAAAAAAAAA"
	var csock eio.ClientSocket
	var toClient int64
	if state != "unknown" {
		transports := map[string][]string{"closed": {"polling"}, "polling": {"polling"}, "upgraded": {"polling", "websocket"}, "wsdirect": {"websocket"}}[state]
		upgraded := make(chan struct{}, 1)
		cs, err := eio.Dial(ts.URL, &eio.Callbacks{OnPacket: func(ps ...*parser.Packet) {
			for _, p := range ps {
				if p.Type == parser.PacketTypeMessage {
					atomic.AddInt64(&toClient, 1)
				}
			}
		}}, &eio.ClientConfig{Transports: transports, UpgradeDone: func(string) { upgraded <- struct{}{} },
			WebSocketDialOptions: &websocket.DialOptions{CompressionMode: websocket.CompressionDisabled}})
		if err != nil {
			res.Inconclusive("ws", err.Error(), 0)
			return
		}
		csock = cs
		defer cs.Close()
		sid = cs.ID()
		if state == "upgraded" {
			select {
			case <-upgraded:
			case <-time.After(4 * time.Second):
				res.Inconclusive("ws", "upgrade did not complete", 0)
				return
			}
			time.Sleep(30 * time.Millisecond)
		}
		if state == "closed" {
			cs.Close()
			time.Sleep(50 * time.Millisecond)
		}
	}
	mu.Lock()
	ss := ssock
	mu.Unlock()
	before := ""
	if ss != nil && state != "closed" {
		before = ss.TransportName()
	}
	n0 := atomic.LoadInt64(&newsock)
	// the request under test
	ctx, cancel := context.WithTimeout(context.Background(), 3*time.Second)
	defer cancel()
	wsURL := "ws" + strings.TrimPrefix(ts.URL, "http") + "/?EIO=4&transport=websocket&sid=" + sid
	conn, resp, err := websocket.Dial(ctx, wsURL, &websocket.DialOptions{CompressionMode: websocket.CompressionDisabled})
	status := 0
	if resp != nil {
		status = resp.StatusCode
	}
	if err == nil && conn != nil {
		// accepted: go on as an upgrading client would
		conn.Write(ctx, websocket.MessageText, []byte("2probe"))
		rctx, rc := context.WithTimeout(context.Background(), 500*time.Millisecond)
		conn.Read(rctx)
		rc()
		conn.Write(ctx, websocket.MessageText, []byte("5"))
		time.Sleep(80 * time.Millisecond)
		if state != "polling" {
			defer conn.Close(websocket.StatusNormalClosure, "")
		}
	}
	time.Sleep(40 * time.Millisecond)
	rec := vtrace.Rec{"ev": "wsreq", "sid": state, "status": status, "newsock": atomic.LoadInt64(&newsock) - n0,
		"transportBefore": before, "transportAfter": "", "sessionClosed": false, "stillWorks": false, "rep": rep}
	if ss != nil && state != "closed" && state != "unknown" {
		rec["transportAfter"] = ss.TransportName()
		mu.Lock()
		rec["sessionClosed"] = sClosed
		mu.Unlock()
		if state != "polling" {
			// the session's own connection still carries traffic both ways
			c0, s0 := atomic.LoadInt64(&toClient), atomic.LoadInt64(&fromClient)
			p1, _ := parser.NewPacket(parser.PacketTypeMessage, false, []byte("to-client"))
			ss.Send(p1)
			p2, _ := parser.NewPacket(parser.PacketTypeMessage, false, []byte("to-server"))
			csock.Send(p2)
			ok := rigWait(2*time.Second, func() bool {
				return atomic.LoadInt64(&toClient) > c0 && atomic.LoadInt64(&fromClient) > s0
			})
			rec["stillWorks"] = ok
		}
	}
	if conn != nil && state == "polling" {
		conn.Close(websocket.StatusNormalClosure, "")
	}
	w.Write([]vtrace.Rec{rec})
	res.Case(fmt.Sprint("ws", state, rep), true)
}

func rigWait(d time.Duration, cond func() bool) bool {
	dl := time.Now().Add(d)
	for time.Now().Before(dl) {
		if cond() {
			return true
		}
		time.Sleep(time.Millisecond)
	}
	return cond()
}
