//go:build verif

// Driver for C08 (connection state recovery): seeded histories on the real
// session-aware adapter (window and clean-up period exposed), end-to-end
// sessions with a raw protocol client that disconnects at every point k of a
// history and reconnects on both sides of the window, and Go-client sessions.
package c08

import (
	"fmt"
	"math/rand"
	"os"
	"path/filepath"
	"regexp"
	"sort"
	"strings"
	"sync"
	"testing"
	"time"

	mapset "github.com/deckarep/golang-set/v2"
	sio "github.com/karagenc/socket.io-go"
	"github.com/karagenc/socket.io-go/adapter"
	"github.com/karagenc/socket.io-go/parser"
	jsonparser "github.com/karagenc/socket.io-go/parser/json"
	"github.com/karagenc/socket.io-go/parser/json/serializer/stdjson"

	"verif/harness/raw"
	"verif/harness/rig"
	"verif/harness/vres"
	"verif/harness/vtrace"
)

func keep(name string) bool {
	return name == "log.append" || strings.HasPrefix(name, "clean.") || strings.HasPrefix(name, "session.") || strings.HasPrefix(name, "rooms.") ||
		name == "reset" || name == "quiesce" || name == "note" || name == "e2e"
}

type env struct {
	res  *vres.Result
	w    *vtrace.Writer
	scen int
}

func us(d time.Duration) int64 { return int64(d / time.Microsecond) }

func (e *env) begin(cfg string, W, tol time.Duration, extra ...any) int {
	e.scen++
	vtrace.Take()
	vtrace.ResetIDs()
	vtrace.Emit("reset", append([]any{"scenario", e.scen, "cfg", cfg, "W", us(W), "tol", us(tol)}, extra...)...)
	return e.scen
}
func (e *env) end() { e.w.Write(vtrace.Take()) }

func roomSet(rs ...string) mapset.Set[adapter.Room] {
	s := mapset.NewSet[adapter.Room]()
	for _, r := range rs {
		s.Add(adapter.Room(r))
	}
	return s
}

// (i) adapter level
func (e *env) adapterHistory(rng *rand.Rand, nops int) {
	const W, tol = 80 * time.Millisecond, 6 * time.Millisecond
	period := 9 * time.Millisecond
	if e.scen%3 == 2 {
		// no cleaner (the public creator cleans once a minute): an expired session is still there when it is asked for
		period = 0
	}
	vtrace.SetObjectFilter(func(any) bool { return false }) // until the new adapter exists
	e.begin("adapter", W, tol)
	store := adapter.NewTestSocketStore()
	a := adapter.VerifNewSessionAwareAdapterCreator(W, period)(store, jsonparser.NewCreator(0, stdjson.New()))
	vtrace.SetObjectFilter(func(o any) bool { return o == any(a) }) // cleaners of earlier adapters never stop
	roomsU := []string{"r1", "r2", "r3"}
	pids := []string{"p1", "p2"}
	var desc []string
	for i := 0; i < nops; i++ {
		switch rng.Intn(7) {
		case 0, 1, 2:
			var T, E []string
			for _, r := range roomsU {
				if rng.Intn(3) == 0 {
					T = append(T, r)
				}
				if rng.Intn(4) == 0 {
					E = append(E, r)
				}
			}
			opts := adapter.NewBroadcastOptions()
			opts.Rooms, opts.Except = roomSet(T...), roomSet(E...)
			a.Broadcast(&parser.PacketHeader{Type: parser.PacketTypeEvent, Namespace: "/"}, []any{"ev", i}, opts)
			desc = append(desc, fmt.Sprint("bc", T, E))
		case 3:
			var rs []adapter.Room
			for _, r := range roomsU {
				if rng.Intn(2) == 0 {
					rs = append(rs, adapter.Room(r))
				}
			}
			p := pids[rng.Intn(2)]
			a.PersistSession(&adapter.SessionToPersist{SID: adapter.SocketID("sid-" + p), PID: adapter.PrivateSessionID(p), Rooms: rs})
			desc = append(desc, fmt.Sprint("persist", p, rs))
		case 4, 5:
			d := time.Duration(2+rng.Intn(45)) * time.Millisecond
			time.Sleep(d)
			desc = append(desc, fmt.Sprint("sleep", d))
		case 6:
			ids := adapter.VerifLogIDs(a)
			off := "nope"
			if len(ids) > 0 && rng.Intn(5) != 0 {
				off = ids[rng.Intn(len(ids))]
			}
			p := pids[rng.Intn(2)]
			if rng.Intn(8) == 0 {
				p = "unknown"
			}
			a.RestoreSession(adapter.PrivateSessionID(p), off)
			desc = append(desc, fmt.Sprint("restore", p, off != "nope"))
		}
	}
	time.Sleep(2 * period)
	vtrace.Emit("quiesce")
	e.end()
	e.res.Case(strings.Join(desc, ";"), true)
	if e.scen%20 == 1 {
		e.res.Sample(desc)
	}
}

// ---------------------------------------------------------------------------
// (ii) end to end with a raw protocol client

var reConnect = regexp.MustCompile(`^40\{"sid":"([^"]+)"(?:,"pid":"([^"]+)")?\}`)
var reOffset = regexp.MustCompile(`,"([A-Za-z0-9_.\-]+)"\]$`)

type e2eWorld struct {
	srv   *rig.Server
	mu    sync.Mutex
	socks []sio.ServerSocket
	discs int
}

func newE2E(W time.Duration, useMw bool, mw func()) (*e2eWorld, error) {
	w := &e2eWorld{}
	cfg := &sio.ServerConfig{
		AdapterCreator: adapter.VerifNewSessionAwareAdapterCreator(W, 15*time.Millisecond),
		ServerConnectionStateRecovery: sio.ServerConnectionStateRecovery{
			Enabled: true, MaxDisconnectionDuration: W, UseMiddlewares: useMw,
		},
	}
	srv, err := rig.NewServer(cfg, func(io *sio.Server) {
		io.Of("/").Use(func(s sio.ServerSocket, h *sio.Handshake) any {
			if mw != nil {
				mw()
			}
			return nil
		})
		io.Of("/").OnConnection(func(s sio.ServerSocket) {
			if !s.Recovered() {
				s.Join("r1")
			}
			s.OnDisconnect(func(r sio.Reason) { w.mu.Lock(); w.discs++; w.mu.Unlock() })
			w.mu.Lock()
			w.socks = append(w.socks, s)
			w.mu.Unlock()
		})
	})
	if err != nil {
		return nil, err
	}
	w.srv = srv
	cur := srv.IO.Of("/").Adapter()
	inner := adapter.VerifInnerAdapter(cur)
	vtrace.SetObjectFilter(func(o any) bool { return o == any(cur) || o == inner })
	return w, nil
}

func (w *e2eWorld) waitSock(n int) sio.ServerSocket {
	rig.WaitUntil(5*time.Second, func() bool { w.mu.Lock(); defer w.mu.Unlock(); return len(w.socks) >= n })
	w.mu.Lock()
	defer w.mu.Unlock()
	if len(w.socks) < n {
		return nil
	}
	return w.socks[n-1]
}

// one broadcast; returns whether a client in room r1 (and its own id room) is addressed
func emit(w *e2eWorld, ss sio.ServerSocket, kind string, n int, binary bool) bool {
	io := w.srv.IO
	var arg any = n
	if binary {
		arg = sio.Binary(fmt.Sprintf("bin-%d", n))
	}
	switch kind {
	case "nsp":
		io.Emit("ev", n, arg)
		return true
	case "room":
		io.To("r1").Emit("ev", n, arg)
		return true
	case "other":
		io.To("r2").Emit("ev", n, arg)
		return false
	case "other3-except-nothing":
		io.To("r3").Emit("ev", n, arg)
		return false
	case "except":
		io.Except("r1").Emit("ev", n, arg)
		return false
	case "room-except-other":
		io.To("r1").Except("r2").Emit("ev", n, arg)
		return true
	case "direct":
		if ss != nil {
			ss.Emit("ev", n, arg)
			return true
		}
	}
	return false
}

func offsetsOf(pkts []string) (ids []string, events int, binOK bool) {
	binOK = true
	for i, p := range pkts {
		if strings.HasPrefix(p, "42") || strings.HasPrefix(p, "45") {
			if m := reOffset.FindStringSubmatch(p); m != nil {
				ids = append(ids, m[1])
			}
			events++
			if strings.Contains(p, "_placeholder") {
				// a binary event: must be a BINARY_EVENT with its attachment right behind it
				if !strings.HasPrefix(p, "451-") || i+1 >= len(pkts) || !strings.HasPrefix(pkts[i+1], "b") {
					binOK = false
				}
			}
		}
	}
	return
}

type e2eParams struct {
	Kinds  []string
	K      int    // disconnect after K broadcasts
	Delay  string // "short" | "long"
	Offset string // "valid" | "unknown"
	PID    string // "valid" | "unknown"
	Binary bool
	Sig    string
	GateMw bool // K6: a broadcast while the restored socket waits in a middleware
}

func (e *env) e2eRaw(p e2eParams) {
	const W, tol = 350 * time.Millisecond, 10 * time.Millisecond
	cfgName := "e2e-raw"
	if p.Sig != "" {
		cfgName = p.Sig
	}
	vtrace.SetObjectFilter(func(any) bool { return false })
	id := e.begin(cfgName, W, tol, "params", fmt.Sprint(p))
	gate := make(chan struct{})
	inMw := make(chan struct{}, 4)
	armed := false
	var amu sync.Mutex
	var mw func()
	if p.GateMw {
		mw = func() {
			amu.Lock()
			a := armed
			amu.Unlock()
			if a {
				inMw <- struct{}{}
				<-gate
			}
		}
	}
	w, err := newE2E(W, p.GateMw, mw)
	if err != nil {
		e.res.Inconclusive("rig", err.Error(), id)
		e.end()
		return
	}
	defer w.srv.Close()
	c1, err := raw.Dial(w.srv.URL())
	if err != nil {
		e.res.Inconclusive("raw", err.Error(), id)
		e.end()
		return
	}
	c1.Send("40")
	var sid, pid string
	if !c1.WaitFor(3*time.Second, func(ps []string) bool {
		for _, x := range ps {
			if m := reConnect.FindStringSubmatch(x); m != nil {
				sid, pid = m[1], m[2]
				return true
			}
		}
		return false
	}) {
		e.res.Inconclusive("raw", "no CONNECT reply", id)
		e.end()
		return
	}
	ss := w.waitSock(1)
	rig.WaitUntil(2*time.Second, func() bool { return ss != nil && ss.Rooms().Contains("r1") })
	if ss != nil {
		// rooms joined and left again before anything is broadcast: they must not come back with the session
		ss.Join("r2", "r3")
		ss.Leave("r2")
		w.srv.IO.In("r3").SocketsLeave("r3")
	}
	var addressed []string
	// the id the log gave to the packet just broadcast: the next log.append record of this scenario (the broadcast
	// is appended on its own goroutine; the record stays even when the cleaner has removed the entry again)
	seenAppends := 0
	lastLog := func() string {
		id := ""
		rig.WaitUntil(3*time.Second, func() bool {
			k := 0
			for _, r := range vtrace.Snapshot() {
				if r["ev"] == "log.append" {
					k++
					if k == seenAppends+1 {
						id = fmt.Sprint(r["id"])
						return true
					}
				}
			}
			return false
		})
		if id != "" {
			seenAppends++
		}
		return id
	}
	n := 0
	tFirstEmit := time.Now() // the packet the client will name as its offset is not older than this
	for ; n < p.K && n < len(p.Kinds); n++ {
		{
			ok := emit(w, ss, p.Kinds[n], n, p.Binary)
			id := lastLog() // every broadcast is appended to the log, addressed to this client or not
			if ok {
				addressed = append(addressed, id)
			}
		}
	}
	// wait until the client has what was addressed to it so far, then drop the connection
	c1.WaitFor(3*time.Second, func(ps []string) bool { ids, _, _ := offsetsOf(ps); return len(ids) >= len(addressed) })
	got1, _, bin1 := offsetsOf(c1.Packets())
	offset := ""
	if len(got1) > 0 {
		offset = got1[len(got1)-1]
	}
	c1.Close()
	rig.WaitUntil(3*time.Second, func() bool { w.mu.Lock(); defer w.mu.Unlock(); return w.discs >= 1 })
	for ; n < len(p.Kinds); n++ {
		kind := p.Kinds[n]
		if kind == "direct" {
			kind = "room"
		}
		{
			ok := emit(w, nil, kind, n, p.Binary)
			id := lastLog() // every broadcast is appended to the log, addressed to this client or not
			if ok {
				addressed = append(addressed, id)
			}
		}
	}
	if p.Delay == "long" {
		time.Sleep(W + 120*time.Millisecond)
	} else {
		time.Sleep(20 * time.Millisecond)
	}
	if p.Offset == "unknown" {
		offset = "zzzzzzz"
	}
	usePid := pid
	if p.PID == "unknown" {
		usePid = "AAAAAAAAAAAAAAAAAAAA"
	}
	c2, err := raw.Dial(w.srv.URL())
	if err != nil {
		e.res.Inconclusive("raw", err.Error(), id)
		e.end()
		return
	}
	defer c2.Abandon()
	amu.Lock()
	armed = true
	amu.Unlock()
	// well inside the window? (otherwise only the adapter's own verdict, which the specification checks against
	// the window, binds what the socket and the client must report)
	comfortable := false // (the window is judged by the specification from the adapter's own records: TRestore)
	_ = tFirstEmit
	c2.Send(fmt.Sprintf(`40{"pid":"%s","offset":"%s"}`, usePid, offset))
	if p.GateMw {
		// the restored socket sits in a middleware: not yet reachable, already restored
		select {
		case <-inMw:
			{
				ok := emit(w, nil, "room", 900, false)
				id := lastLog() // every broadcast is appended to the log, addressed to this client or not
				if ok {
					addressed = append(addressed, id)
				}
			}
		case <-time.After(2 * time.Second):
		}
		close(gate)
	}
	var sid2, pid2 string
	if !c2.WaitFor(3*time.Second, func(ps []string) bool {
		for _, x := range ps {
			if m := reConnect.FindStringSubmatch(x); m != nil {
				sid2, pid2 = m[1], m[2]
				return true
			}
		}
		return false
	}) {
		e.res.Inconclusive("raw", "no CONNECT reply on reconnect", id)
		e.end()
		return
	}
	ss2 := w.waitSock(2)
	recovered := ss2 != nil && ss2.Recovered()
	// live traffic after the reconnect
	if recovered {
		for j := 0; j < 2; j++ {
			{
				ok := emit(w, ss2, []string{"room", "nsp"}[j], 100+j, false)
				id := lastLog() // every broadcast is appended to the log, addressed to this client or not
				if ok {
					addressed = append(addressed, id)
				}
			}
		}
	}
	expect := p.Delay == "short" && p.Offset == "valid" && p.PID == "valid" && offset != ""
	if recovered {
		// everything addressed to the client has arrived (set-wise: what came before the disconnect counts too)
		c2.WaitFor(4*time.Second, func(ps []string) bool {
			ids, _, _ := offsetsOf(ps)
			have := map[string]bool{}
			for _, x := range got1 {
				have[x] = true
			}
			for _, x := range ids {
				have[x] = true
			}
			for _, a := range addressed {
				if !have[a] {
					return false
				}
			}
			return true
		})
	}
	time.Sleep(30 * time.Millisecond)
	got2, _, bin2 := offsetsOf(c2.Packets())
	received := append(append([]string{}, got1...), got2...)
	roomsOk := true
	if recovered {
		roomsOk = ss2.Rooms().Contains("r1") && !ss2.Rooms().Contains("r2") && !ss2.Rooms().Contains("r3") && string(ss2.ID()) == sid
	}
	if !recovered {
		addressed = []string{}
	}
	vtrace.Emit("e2e", "class", cfgName, "client", "raw", "recovered", recovered, "expectRecovered", expect, "clientRecovered", recovered,
		"sameSid", sid2 == sid && pid2 == pid, "roomsOk", roomsOk, "addressed", addressed, "received", received,
		"intact", bin1 && bin2, "binary", p.Binary, "strict", true, "comfortable", comfortable)
	e.end()
	e.res.Case(fmt.Sprint(p), true)
	if e.scen%15 == 2 {
		e.res.Sample(p)
	}
}

// ---------------------------------------------------------------------------
// (iii) Go client: what Recovered() reports across reconnects

var dbg = os.Getenv("VERIF_DBG") == "1"

func (e *env) goClient() {
	const W, tol = 300 * time.Millisecond, 10 * time.Millisecond
	vtrace.SetObjectFilter(func(any) bool { return false })
	id := e.begin("e2e-goclient", W, tol)
	w, err := newE2E(W, false, nil)
	if err != nil {
		e.res.Inconclusive("rig", err.Error(), id)
		e.end()
		return
	}
	defer w.srv.Close()
	d := 10 * time.Millisecond
	m := rig.NewManager(w.srv.URL(), []string{"websocket"}, &sio.ManagerConfig{ReconnectionDelay: &d, ReconnectionDelayMax: &d})
	defer m.Close()
	c := m.Socket("/", nil)
	var mu sync.Mutex
	connects := 0
	c.OnEvent("ev", func(n int, x int) {}) // (the offset the server appends is not an argument of the handler)
	c.OnConnect(func() { mu.Lock(); connects++; mu.Unlock() })
	if dbg {
		m.OnError(func(err error) { fmt.Println("DBG mgr error:", err) })
		m.OnClose(func(r sio.Reason, err error) { fmt.Println("DBG mgr close:", r, err) })
		m.OnReconnectAttempt(func(n uint32) { fmt.Println("DBG reconnect attempt", n) })
		m.OnReconnect(func(n uint32) { fmt.Println("DBG reconnected", n) })
		c.OnConnectError(func(err any) { fmt.Println("DBG connect_error:", err) })
		c.OnDisconnect(func(r sio.Reason) { fmt.Println("DBG disconnect:", r) })
	}
	c.Connect()
	waitConn := func(k int) bool {
		return rig.WaitUntil(5*time.Second, func() bool { mu.Lock(); defer mu.Unlock(); return connects >= k })
	}
	if !waitConn(1) {
		e.res.Inconclusive("goclient", "no connect", id)
		e.end()
		return
	}
	ss := w.waitSock(1)
	rig.WaitUntil(2*time.Second, func() bool { return ss != nil && ss.Rooms().Contains("r1") })
	firstID := c.ID()
	emit(w, ss, "room", 1, false)
	emit(w, ss, "nsp", 2, false)
	time.Sleep(60 * time.Millisecond)
	for round := 0; round < 2; round++ {
		w.mu.Lock()
		cur := w.socks[len(w.socks)-1]
		w.mu.Unlock()
		mu.Lock()
		before := connects
		mu.Unlock()
		if round == 0 {
			// the transport drops (recoverable): the client reconnects by itself within the window
			sio.VerifCloseEngine(cur)
		} else {
			// the client leaves the namespace itself (not recoverable) and comes back: a fresh session
			// (wait past the window: the session persisted in round 0 would otherwise still be restorable)
			c.Disconnect()
			time.Sleep(W + 120*time.Millisecond)
			c.Connect()
		}
		if !waitConn(before + 1) {
			e.res.Inconclusive("goclient", "no reconnect", id)
			break
		}
		ss2 := w.waitSock(round + 2)
		time.Sleep(40 * time.Millisecond)
		rec := ss2 != nil && ss2.Recovered()
		vtrace.Emit("e2e", "class", "e2e-goclient", "client", "go", "recovered", rec, "expectRecovered", round == 0, "clientRecovered", c.Recovered(),
			"sameSid", c.ID() == firstID, "roomsOk", !rec || ss2.Rooms().Contains("r1"), "addressed", []string{}, "received", []string{},
			"intact", true, "binary", false, "round", round, "strict", false, "comfortable", false)
	}
	e.end()
	e.res.Case("goclient", true)
}

// the Go client recovers twice in a row with nothing live in between: what was replayed the first time (it arrives
// before the CONNECT reply when the namespace has a slow middleware) is not replayed again
func (e *env) goClientTwice() {
	const W, tol = 1500 * time.Millisecond, 10 * time.Millisecond
	vtrace.SetObjectFilter(func(any) bool { return false })
	id := e.begin("e2e-goclient-twice", W, tol)
	w, err := newE2E(W, true, func() { time.Sleep(120 * time.Millisecond) })
	if err != nil {
		e.res.Inconclusive("rig", err.Error(), id)
		e.end()
		return
	}
	defer w.srv.Close()
	d := 10 * time.Millisecond
	m := rig.NewManager(w.srv.URL(), []string{"websocket"}, &sio.ManagerConfig{ReconnectionDelay: &d, ReconnectionDelayMax: &d})
	defer m.Close()
	c := m.Socket("/", nil)
	var mu sync.Mutex
	connects := 0
	var got []string
	c.OnEvent("ev", func(n int, x int) { mu.Lock(); got = append(got, fmt.Sprintf("m%d", n)); mu.Unlock() })
	c.OnConnect(func() { mu.Lock(); connects++; mu.Unlock() })
	c.Connect()
	waitConn := func(k int) bool {
		return rig.WaitUntil(5*time.Second, func() bool { mu.Lock(); defer mu.Unlock(); return connects >= k })
	}
	waitGot := func(k int) bool {
		return rig.WaitUntil(3*time.Second, func() bool { mu.Lock(); defer mu.Unlock(); return len(got) >= k })
	}
	if !waitConn(1) {
		e.res.Inconclusive("goclient", "no connect", id)
		e.end()
		return
	}
	ss := w.waitSock(1)
	rig.WaitUntil(2*time.Second, func() bool { return ss != nil && ss.Rooms().Contains("r1") })
	firstID := c.ID()
	emit(w, ss, "nsp", 1, false)
	waitGot(1)
	recoveredBoth := true
	for round := 0; round < 2; round++ {
		w.mu.Lock()
		cur := w.socks[len(w.socks)-1]
		w.mu.Unlock()
		mu.Lock()
		before := connects
		mu.Unlock()
		sio.VerifCloseEngine(cur)
		rig.WaitUntil(3*time.Second, func() bool { w.mu.Lock(); defer w.mu.Unlock(); return w.discs >= round+1 })
		emit(w, nil, "nsp", round+2, false) // missed while away
		if !waitConn(before + 1) {
			e.res.Inconclusive("goclient", "no reconnect", id)
			e.end()
			return
		}
		waitGot(round + 2)
		time.Sleep(60 * time.Millisecond) // nothing live in between
		ss2 := w.waitSock(round + 2)
		rec := ss2 != nil && ss2.Recovered()
		if !rec || !c.Recovered() {
			recoveredBoth = false
		}
		// this round's verdict, as the socket and the client report it, against the adapter's (lastOk)
		vtrace.Emit("e2e", "class", "e2e-goclient-twice", "client", "go", "recovered", rec, "expectRecovered", true, "clientRecovered", c.Recovered(),
			"sameSid", rec && c.ID() == firstID, "roomsOk", !rec || ss2.Rooms().Contains("r1"), "addressed", []string{}, "received", []string{},
			"intact", true, "binary", false, "round", round, "strict", false, "comfortable", false)
	}
	time.Sleep(100 * time.Millisecond)
	mu.Lock()
	received := append([]string{}, got...)
	mu.Unlock()
	if recoveredBoth {
		// both recoveries happened: everything exactly once, in order
		vtrace.Emit("e2e", "class", "e2e-goclient-twice", "client", "go", "recovered", true, "expectRecovered", true, "clientRecovered", true,
			"sameSid", c.ID() == firstID, "roomsOk", true, "addressed", []string{"m1", "m2", "m3"}, "received", received,
			"intact", true, "binary", false, "strict", true, "comfortable", false)
		e.res.Case("goclient-twice", true)
	} else {
		// a round was not restored (the adapter's verdict, which the specification judged): the double replay cannot be looked at
		e.res.Inconclusive("goclient-twice", "a round was not recovered", id)
	}
	e.end()
}

func TestC08(t *testing.T) {
	out := vres.OutDir()
	res := vres.New()
	res.Rule = "adapter: seeded histories of broadcast / persist / sleep / restore on the real session-aware adapter with a 9 ms cleaner; e2e-raw: histories of <=5 broadcasts (namespace, room, other room, exclusion, direct; text/binary) x disconnect point k x reconnect delay on both sides of the window x valid/unknown offset and pid, each a full client session; distinct by parameters"
	vtrace.Install()
	defer vtrace.Uninstall()
	vtrace.SetFilter(keep)
	w, err := vtrace.NewWriter(filepath.Join(out, "trace.ndjson"))
	if err != nil {
		t.Fatal(err)
	}
	e := &env{res: res, w: w}
	defer vres.WedgeWatch(res, out, "recovery", func() int { return e.scen })()
	rng := rand.New(rand.NewSource(vres.Seed()))
	for i := 0; i < vres.Pick(30, 500); i++ {
		e.adapterHistory(rng, 22)
	}
	kindsU := []string{"nsp", "room", "other", "except", "room-except-other", "direct", "other3-except-nothing"}
	var ps []e2eParams
	hist := []string{"nsp", "room", "other", "direct", "room-except-other"}
	for k := 1; k <= len(hist); k++ {
		ps = append(ps, e2eParams{Kinds: hist, K: k, Delay: "short", Offset: "valid", PID: "valid"})
	}
	ps = append(ps,
		e2eParams{Kinds: hist, K: 2, Delay: "long", Offset: "valid", PID: "valid"},
		e2eParams{Kinds: hist, K: 2, Delay: "short", Offset: "unknown", PID: "valid"},
		e2eParams{Kinds: hist, K: 2, Delay: "short", Offset: "valid", PID: "unknown"},
	)
	for i := 0; i < vres.Pick(6, 120); i++ {
		n := 2 + rng.Intn(4)
		ks := make([]string, n)
		for j := range ks {
			ks[j] = kindsU[rng.Intn(len(kindsU))]
		}
		ks[0] = "nsp" // the client needs an offset to recover from
		ps = append(ps, e2eParams{Kinds: ks, K: 1 + rng.Intn(n), Delay: []string{"short", "short", "long"}[rng.Intn(3)], Offset: "valid", PID: "valid"})
	}
	sort.SliceStable(ps, func(i, j int) bool { return false })
	for _, p := range ps {
		e.e2eRaw(p)
	}
	e.goClient()
	e.goClientTwice()
	// recorded findings, reproduced deterministically
	e.e2eRaw(e2eParams{Kinds: []string{"nsp", "room", "room"}, K: 1, Delay: "short", Offset: "valid", PID: "valid", Binary: true, Sig: "k1-binary-replay"})
	e.e2eRaw(e2eParams{Kinds: []string{"nsp", "room"}, K: 1, Delay: "short", Offset: "valid", PID: "valid", GateMw: true, Sig: "k6-broadcast-during-restore"})
	res.Scenarios = e.scen
	w.Close()
	if err := res.Write(out, "result.json"); err != nil {
		t.Fatal(err)
	}
}
