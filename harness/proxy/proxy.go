//go:build verif

// Package proxy is a byte-counting TCP fault proxy between a client and a server.
package proxy

import (
	"bytes"
	"net"
	"sync"
	"sync/atomic"
	"time"
)

type Proxy struct {
	ln       net.Listener
	target   string
	mu       sync.Mutex
	conns    []net.Conn
	up, down int64 // bytes forwarded client->server / server->client
	cutUp    int64 // cut everything once `up` reaches this (0 = never)
	cutDown  int64
	black    int32 // 1: swallow bytes in both directions (connections stay open); 2: up only; 3: down only
	refuse   int32
	closed   int32
	delay    int64 // one-way latency in ns added to every forwarded chunk
	holeOnWS int32 // 1: the first websocket handshake request opens a black hole (holeMode)
	holeMode int32
	onHole   func()
}

func New(target string) (*Proxy, error) {
	ln, err := net.Listen("tcp", "127.0.0.1:0")
	if err != nil {
		return nil, err
	}
	p := &Proxy{ln: ln, target: target}
	go p.accept()
	return p, nil
}

func (p *Proxy) Addr() string { return p.ln.Addr().String() }
func (p *Proxy) URL() string  { return "http://" + p.Addr() }

func (p *Proxy) accept() {
	for {
		c, err := p.ln.Accept()
		if err != nil {
			return
		}
		if atomic.LoadInt32(&p.refuse) == 1 {
			c.Close()
			continue
		}
		s, err := net.Dial("tcp", p.target)
		if err != nil {
			c.Close()
			continue
		}
		p.mu.Lock()
		p.conns = append(p.conns, c, s)
		p.mu.Unlock()
		go p.pipe(c, s, &p.up, &p.cutUp, 2)
		go p.pipe(s, c, &p.down, &p.cutDown, 3)
	}
}

func (p *Proxy) pipe(src, dst net.Conn, ctr, cut *int64, dir int32) {
	buf := make([]byte, 4096)
	for {
		n, err := src.Read(buf)
		if n > 0 {
			if dir == 2 && atomic.LoadInt32(&p.holeOnWS) == 1 && bytes.Contains(bytes.ToLower(buf[:n]), []byte("upgrade: websocket")) {
				if atomic.CompareAndSwapInt32(&p.holeOnWS, 1, 0) {
					atomic.StoreInt32(&p.black, atomic.LoadInt32(&p.holeMode))
					if p.onHole != nil {
						p.onHole()
					}
				}
			}
			b := atomic.LoadInt32(&p.black)
			if b == 1 || b == dir {
				// swallowed
			} else {
				lim := atomic.LoadInt64(cut)
				cur := atomic.LoadInt64(ctr)
				if lim > 0 && cur+int64(n) >= lim {
					k := lim - cur
					if k > 0 {
						dst.Write(buf[:k])
						atomic.AddInt64(ctr, k)
					}
					p.CutAll()
					return
				}
				if d := atomic.LoadInt64(&p.delay); d > 0 {
					time.Sleep(time.Duration(d))
				}
				if _, werr := dst.Write(buf[:n]); werr != nil {
					src.Close()
					return
				}
				atomic.AddInt64(ctr, int64(n))
			}
		}
		if err != nil {
			dst.Close()
			return
		}
	}
}

// CutAfter cuts every connection once k bytes went client->server (up) or server->client.
func (p *Proxy) CutAfterUp(k int64)   { atomic.StoreInt64(&p.cutUp, k) }
func (p *Proxy) CutAfterDown(k int64) { atomic.StoreInt64(&p.cutDown, k) }

// CutAll closes every proxied connection abruptly.
func (p *Proxy) CutAll() {
	p.mu.Lock()
	cs := p.conns
	p.conns = nil
	p.mu.Unlock()
	for _, c := range cs {
		c.Close()
	}
}

// Blackhole silently drops bytes: mode 1 both directions, 2 client->server, 3 server->client, 0 off.
func (p *Proxy) Blackhole(mode int32) { atomic.StoreInt32(&p.black, mode) }
func (p *Proxy) Refuse(on bool) {
	v := int32(0)
	if on {
		v = 1
	}
	atomic.StoreInt32(&p.refuse, v)
}
// HoleOnWebsocketHandshake arms the proxy: the first websocket handshake request it sees opens a black hole in both
// directions (mode 1; the request itself is swallowed) or in one (2: client -> server, 3: server -> client); f is
// called at that moment.
func (p *Proxy) HoleOnWebsocketHandshake(mode int32, f func()) {
	p.onHole = f
	atomic.StoreInt32(&p.holeMode, mode)
	atomic.StoreInt32(&p.holeOnWS, 1)
}

// Delay adds a one-way latency to everything forwarded from now on (order is kept).
func (p *Proxy) Delay(d time.Duration) { atomic.StoreInt64(&p.delay, int64(d)) }

func (p *Proxy) Bytes() (up, down int64) { return atomic.LoadInt64(&p.up), atomic.LoadInt64(&p.down) }

func (p *Proxy) Close() {
	if atomic.CompareAndSwapInt32(&p.closed, 0, 1) {
		p.ln.Close()
		p.CutAll()
	}
}
