//go:build verif

// Package raw is a protocol-level Socket.IO peer over Engine.IO long-polling
// (plain HTTP), for scripts the Go client cannot or must not perform.
package raw

import (
	"fmt"
	"io"
	"net/http"
	"strings"
	"sync"
	"time"
)

type Client struct {
	URL    string
	SID    string
	hc     *http.Client
	mu     sync.Mutex
	pkts   []string // Engine.IO packets received, in order
	stop   chan struct{}
	closed bool
	wg     sync.WaitGroup
}

// Dial performs the Engine.IO handshake over polling and starts the poll loop.
func Dial(url string) (*Client, error) {
	c := &Client{URL: url, hc: &http.Client{Timeout: 40 * time.Second}, stop: make(chan struct{})}
	resp, err := c.hc.Get(url + "/socket.io/?EIO=4&transport=polling")
	if err != nil {
		return nil, err
	}
	b, _ := io.ReadAll(resp.Body)
	resp.Body.Close()
	s := string(b)
	i := strings.Index(s, `"sid":"`)
	if i < 0 {
		return nil, fmt.Errorf("no sid in %q (status %d)", s, resp.StatusCode)
	}
	s = s[i+7:]
	c.SID = s[:strings.IndexByte(s, '"')]
	c.wg.Add(1)
	go c.loop()
	return c, nil
}

func (c *Client) q() string { return c.URL + "/socket.io/?EIO=4&transport=polling&sid=" + c.SID }

func (c *Client) loop() {
	defer c.wg.Done()
	for {
		select {
		case <-c.stop:
			return
		default:
		}
		resp, err := c.hc.Get(c.q())
		if err != nil {
			return
		}
		b, _ := io.ReadAll(resp.Body)
		resp.Body.Close()
		if resp.StatusCode != 200 {
			return
		}
		for _, p := range strings.Split(string(b), "\x1e") {
			if p == "" {
				continue
			}
			if p == "2" { // ping
				go c.Send("3")
				continue
			}
			if p == "1" { // close
				c.mu.Lock()
				c.closed = true
				c.mu.Unlock()
				return
			}
			if p == "6" {
				continue
			}
			c.mu.Lock()
			c.pkts = append(c.pkts, p)
			c.mu.Unlock()
		}
	}
}

// Send posts Engine.IO packets (already encoded, e.g. `40` or `42["ev",1]`).
func (c *Client) Send(pkts ...string) (int, error) {
	resp, err := c.hc.Post(c.q(), "text/plain;charset=UTF-8", strings.NewReader(strings.Join(pkts, "\x1e")))
	if err != nil {
		return 0, err
	}
	io.Copy(io.Discard, resp.Body)
	resp.Body.Close()
	return resp.StatusCode, nil
}

// Packets returns a copy of the Engine.IO packets received so far.
func (c *Client) Packets() []string {
	c.mu.Lock()
	defer c.mu.Unlock()
	return append([]string(nil), c.pkts...)
}

func (c *Client) Closed() bool { c.mu.Lock(); defer c.mu.Unlock(); return c.closed }

// WaitFor waits until pred holds for the received packets.
func (c *Client) WaitFor(d time.Duration, pred func(pkts []string) bool) bool {
	dl := time.Now().Add(d)
	for {
		if pred(c.Packets()) {
			return true
		}
		if time.Now().After(dl) {
			return false
		}
		time.Sleep(time.Millisecond)
	}
}

// Close ends the Engine.IO session from the client side (CLOSE packet): the
// server sees `transport close`, which is a recoverable reason.
func (c *Client) Close() {
	select {
	case <-c.stop:
	default:
		close(c.stop)
	}
	c.Send("1")
}

// Abandon stops polling without telling the server.
func (c *Client) Abandon() {
	select {
	case <-c.stop:
	default:
		close(c.stop)
	}
}
