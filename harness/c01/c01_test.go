//go:build verif

// Drivers for C01 (every event reaches the peer exactly once, intact) and C02
// (per-emitter order, contiguous binary frames): a real server and 1..3 real Go
// clients, goroutines emitting tagged events of several shapes and sizes in
// both directions over each transport, with state recovery off and on.
package c01

import (
	"bytes"
	"fmt"
	"math/rand"
	"path/filepath"
	"reflect"
	"regexp"
	"strconv"
	"strings"
	"sync"
	"sync/atomic"
	"testing"
	"time"

	sio "github.com/karagenc/socket.io-go"
	eioparser "github.com/karagenc/socket.io-go/engine.io/parser"

	"verif/harness/gates"
	"verif/harness/proxy"
	"verif/harness/rig"
	"verif/harness/vres"
	"verif/harness/vtrace"
)

func keep(name string) bool {
	return name == "pq.add" || name == "pq.send" || name == "eio.s.recv" || name == "eio.c.recv" || name == "emit.start" ||
		name == "h.entry" || name == "h.decoy" || name == "reset" || name == "quiesce" || name == "note"
}

var reTag = regexp.MustCompile(`e:c(\d+)g(\d+)n(\d+)(?:a(\d+):)?`)

func frameTag(d []byte) []int {
	if len(d) > 256 {
		d = d[:256]
	}
	m := reTag.FindSubmatch(d)
	if m == nil {
		return []int{0, 0, 0, 0}
	}
	c, _ := strconv.Atoi(string(m[1]))
	g, _ := strconv.Atoi(string(m[2]))
	n, _ := strconv.Atoi(string(m[3]))
	i := 0
	if len(m[4]) > 0 {
		i, _ = strconv.Atoi(string(m[4]))
	}
	return []int{c, g, n, i}
}

func convert(v any) (any, bool) {
	ps, ok := v.([]*eioparser.Packet)
	if !ok {
		return nil, false
	}
	out := make([][]int, len(ps))
	for i, p := range ps {
		if p.Type == eioparser.PacketTypeMessage {
			out[i] = frameTag(p.Data)
		} else {
			out[i] = []int{0, 0, 0, 0}
		}
	}
	return out, true
}

// ---- shapes --------------------------------------------------------------------

type S3 struct {
	A int          `json:"a"`
	B string       `json:"b"`
	C sio.Binary   `json:"c"`
	D []sio.Binary `json:"d"`
}
type S5 struct {
	X sio.Binary `json:"x"`
}

var sizes = []int{0, 1, 7, 32766, 32767, 32768, 32769, 65535, 65536, 65537, 300000}

func tagOf(c, g, n int) string { return fmt.Sprintf("e:c%dg%dn%d", c, g, n) }

func bin(tag string, i, size int) sio.Binary {
	p := []byte(fmt.Sprintf("%sa%d:", tag, i))
	b := make([]byte, len(p)+size)
	copy(b, p)
	for k := len(p); k < len(b); k++ {
		b[k] = byte(k*31 + i)
	}
	return b
}

func sizeFor(c, g, n int, big bool) int {
	if !big {
		return []int{0, 1, 7, 100}[(g+n)%4]
	}
	return sizes[(c+g*3+n)%len(sizes)]
}

const nshapes = 7

// args of packet (c,g,n) for shape k, and its number of attachments
func argsFor(c, g, n, k int, big bool) (name string, args []any, natt int) {
	tag := tagOf(c, g, n)
	sz := sizeFor(c, g, n, big)
	switch k {
	case 0:
		return "s0", []any{tag}, 0
	case 1:
		return "s1", []any{tag, n, "héllo ✓ \"q\" \\ " + strings.Repeat("x", sz%500)}, 0
	case 2:
		return "s2", []any{tag, bin(tag, 1, sz)}, 1
	case 3:
		return "s3", []any{tag, S3{A: n, B: "b" + tag, C: bin(tag, 1, sz), D: []sio.Binary{bin(tag, 2, 3), bin(tag, 3, 0)}}}, 3
	case 4:
		return "s4", []any{tag, map[string]any{"n": float64(n), "s": tag, "l": []any{1.0, "two", true, nil}, "m": map[string]any{"k": 1.5}}}, 0
	case 5:
		if splitMode {
			// four frames of 137 characters each after a header of about 160: with maxPayload 300 one packet
			// needs three polling payloads (the write path splits its batch twice)
			return "s5", []any{tag, bin(tag, 1, 100), bin(tag, 2, 100), &S5{X: bin(tag, 3, 100)}, bin(tag, 4, 100)}, 4
		}
		return "s5", []any{tag, bin(tag, 1, 5), bin(tag, 2, sz), &S5{X: bin(tag, 3, 1)}, bin(tag, 4, 0)}, 4
	default:
		// received by a handler whose last parameter is an acknowledgement function; the emitter
		// asks for the acknowledgement only every other time (see withAck)
		return "s6", []any{tag, n}, 0
	}
}

type world struct {
	px   *proxy.Proxy
	srv  *rig.Server
	mgrs []*sio.Manager
	cs   []sio.ClientSocket
	mu   sync.Mutex
	ss   map[int]sio.ServerSocket // by client label
	big  bool
	got  int64
	errs int64
}

func parseTag(tag string) (c, g, n int, ok bool) {
	m := reTag.FindStringSubmatch(tag)
	if m == nil {
		return
	}
	c, _ = strconv.Atoi(m[1])
	g, _ = strconv.Atoi(m[2])
	n, _ = strconv.Atoi(m[3])
	return c, g, n, true
}

func eq(a, b any) bool {
	return reflect.DeepEqual(a, b)
}

// handlers for every shape plus decoys with look-alike names
func (w *world) attach(on func(string, any)) {
	entry := func(tag string, k int, got []any) {
		c, g, n, ok := parseTag(tag)
		good := false
		if ok {
			_, want, _ := argsFor(c, g, n, k, w.big)
			good = len(want) == len(got)+1
			for i := range got {
				if good && !equalArg(want[i+1], got[i]) {
					good = false
				}
			}
		}
		vtrace.Emit("h.entry", "p", []int{c, g, n}, "ok", good, "shape", k)
		atomic.AddInt64(&w.got, 1)
	}
	on("s0", func(tag string) { entry(tag, 0, nil) })
	on("s1", func(tag string, n int, s string) { entry(tag, 1, []any{n, s}) })
	on("s2", func(tag string, b sio.Binary) { entry(tag, 2, []any{b}) })
	on("s3", func(tag string, s S3) { entry(tag, 3, []any{s}) })
	on("s4", func(tag string, m map[string]any) { entry(tag, 4, []any{m}) })
	on("s5", func(tag string, a, b sio.Binary, s *S5, d sio.Binary) { entry(tag, 5, []any{a, b, s, d}) })
	on("s6", func(tag string, n int, ack func(string)) { entry(tag, 6, []any{n}); ack("ok") }) // (the reply must not carry the tag: it would look like a tagged frame)
	for _, d := range []string{"s", "s1x", "S1", "s10", "s2 ", " s3", "s4/", "s5,"} {
		d := d
		on(d, func(tag string) { vtrace.Emit("h.decoy", "name", d, "tag", tag) })
	}
}

func equalArg(want, got any) bool {
	switch x := want.(type) {
	case sio.Binary:
		y, ok := got.(sio.Binary)
		return ok && bytes.Equal(x, y)
	case *S5:
		y, ok := got.(*S5)
		return ok && y != nil && bytes.Equal(x.X, y.X)
	case S3:
		y, ok := got.(S3)
		if !ok || x.A != y.A || x.B != y.B || !bytes.Equal(x.C, y.C) || len(x.D) != len(y.D) {
			return false
		}
		for i := range x.D {
			if !bytes.Equal(x.D[i], y.D[i]) {
				return false
			}
		}
		return true
	}
	return eq(want, got)
}

// linkDelay, when set, puts the clients behind a proxy with that one-way latency; slowRT gives every HTTP request of
// the clients that much set-up time before its body is read
var linkDelay, slowRT time.Duration

// maxBuf, when set, is the server's MaxBufferSize (announced to the client as maxPayload); splitMode gives shape s5
// four attachments of 100 bytes
var (
	maxBuf    int64
	splitMode bool
)

func newWorld(nclients int, transports []string, recovery, big bool, fastPing ...bool) (*world, error) {
	w := &world{ss: map[int]sio.ServerSocket{}, big: big}
	cfg := &sio.ServerConfig{}
	cfg.ServerConnectionStateRecovery.Enabled = recovery
	if maxBuf > 0 {
		cfg.EIO.MaxBufferSize = maxBuf
	}
	if len(fastPing) > 0 && fastPing[0] {
		cfg.EIO.PingInterval, cfg.EIO.PingTimeout = time.Second, 2*time.Second
	}
	var label int64
	labels := map[string]int{}
	srv, err := rig.NewServer(cfg, func(io *sio.Server) {
		io.Of("/").Use(func(s sio.ServerSocket, h *sio.Handshake) any {
			w.attach(s.OnEvent)
			s.OnError(func(err error) { atomic.AddInt64(&w.errs, 1) })
			s.OnEvent("hello", func(c int) {
				w.mu.Lock()
				w.ss[c] = s
				labels[string(s.ID())] = c
				w.mu.Unlock()
			})
			return nil
		})
	})
	_ = label
	if err != nil {
		return nil, err
	}
	w.srv = srv
	upgraded := make(chan struct{}, nclients)
	for c := 1; c <= nclients; c++ {
		mc := &sio.ManagerConfig{NoReconnection: true}
		mc.EIO.UpgradeDone = func(string) { upgraded <- struct{}{} }
		url := srv.URL()
		if linkDelay > 0 {
			if w.px == nil {
				px, err := proxy.New(strings.TrimPrefix(url, "http://"))
				if err != nil {
					w.close()
					return nil, err
				}
				px.Delay(linkDelay)
				w.px = px
			}
			url = w.px.URL()
		}
		if slowRT > 0 {
			mc.EIO.HTTPTransport = &rig.SlowRT{D: slowRT}
		}
		m := rig.NewManager(url, transports, mc)
		m.OnError(func(err error) { atomic.AddInt64(&w.errs, 1) })
		w.mgrs = append(w.mgrs, m)
		s := m.Socket("/", nil)
		w.attach(s.OnEvent)
		w.cs = append(w.cs, s)
		ch := make(chan struct{}, 1)
		s.OnConnect(func() {
			select {
			case ch <- struct{}{}:
			default:
			}
		})
		s.Connect()
		select {
		case <-ch:
		case <-time.After(5 * time.Second):
			w.close()
			return nil, fmt.Errorf("client %d did not connect", c)
		}
		s.Emit("hello", c)
	}
	if !rig.WaitUntil(4*time.Second, func() bool { w.mu.Lock(); defer w.mu.Unlock(); return len(w.ss) == nclients }) {
		w.close()
		return nil, fmt.Errorf("server did not see every client")
	}
	if len(transports) > 1 {
		for c := 0; c < nclients; c++ {
			select {
			case <-upgraded:
			case <-time.After(5 * time.Second):
				w.close()
				return nil, fmt.Errorf("upgrade did not complete")
			}
		}
		time.Sleep(30 * time.Millisecond)
	}
	return w, nil
}

func (w *world) close() {
	for _, m := range w.mgrs {
		m.Close()
	}
	if w.px != nil {
		w.px.Close()
	}
	w.srv.Close()
}

type env struct {
	res  *vres.Result
	w    *vtrace.Writer
	scen int
}

type params struct {
	Transports []string
	Recovery   bool
	Clients    int
	Emitters   int
	Per        int
	Big        bool
	Shapes     []int
	SlowRT     time.Duration // set-up time of every HTTP request of the clients (its body is read only afterwards)
	Delay      time.Duration // one-way latency of the link (a request then takes long enough to overlap with others)
	FastPing   bool          // heartbeats every second: they share the transport with the traffic
	Pace       time.Duration // pause after every emit (stretches the scenario over several heartbeats)
	MaxBuf     int64         // the server's MaxBufferSize = the client's maxPayload; with it shape s5 carries four 100-byte attachments
}

func (e *env) scenario(rng *rand.Rand, p params, cfgName string) {
	e.scen++
	id := e.scen
	linkDelay, slowRT = p.Delay, p.SlowRT
	maxBuf, splitMode = p.MaxBuf, p.MaxBuf > 0
	defer func() { maxBuf, splitMode = 0, false }()
	w, err := newWorld(p.Clients, p.Transports, p.Recovery, p.Big, p.FastPing)
	linkDelay, slowRT = 0, 0
	if err != nil {
		e.res.Inconclusive("rig", err.Error(), id)
		return
	}
	defer w.close()
	time.Sleep(20 * time.Millisecond)
	vtrace.Take() // connection set-up is not part of the scenario
	vtrace.Emit("reset", "scenario", id, "cfg", cfgName, "params", fmt.Sprint(p))
	var wg sync.WaitGroup
	total := int64(0)
	seed := rng.Int63()
	for c := 1; c <= p.Clients; c++ {
		for dir := 0; dir < 2; dir++ {
			for g := 1; g <= p.Emitters; g++ {
				c, dir, g := c, dir, g
				wg.Add(1)
				atomic.AddInt64(&total, int64(p.Per))
				go func() {
					defer wg.Done()
					r := rand.New(rand.NewSource(seed + int64(c*1000+dir*100+g)))
					label := c + 10*dir
					for n := 1; n <= p.Per; n++ {
						k := p.Shapes[r.Intn(len(p.Shapes))]
						name, args, natt := argsFor(label, g, n, k, p.Big)
						if k == 6 && n%2 == 0 {
							args = append(args, func(string) {}) // with an acknowledgement
						}
						vtrace.Emit("emit.start", "p", []int{label, g, n}, "natt", natt, "shape", k)
						if dir == 0 {
							w.cs[c-1].Emit(name, args...)
						} else {
							w.ss[c].Emit(name, args...)
						}
						if p.Pace > 0 {
							time.Sleep(p.Pace)
						} else if r.Intn(4) == 0 {
							time.Sleep(time.Duration(r.Intn(400)) * time.Microsecond)
						}
					}
				}()
			}
		}
	}
	wg.Wait()
	rig.WaitUntil(15*time.Second, func() bool { return atomic.LoadInt64(&w.got) >= atomic.LoadInt64(&total) })
	time.Sleep(60 * time.Millisecond)
	vtrace.Emit("quiesce", "emitted", atomic.LoadInt64(&total), "entered", atomic.LoadInt64(&w.got), "errors", atomic.LoadInt64(&w.errs))
	if g := atomic.LoadInt64(&w.got); g != atomic.LoadInt64(&total) {
		e.res.Violation("delivery-count", fmt.Sprintf("%s: %d events emitted, %d handler entries, %d error-handler calls", cfgName, total, g, atomic.LoadInt64(&w.errs)), id, p)
	}
	e.w.Write(vtrace.Take())
	e.res.Case(fmt.Sprint(p, seed), true)
	if id%7 == 1 {
		e.res.Sample(p)
	}
}

// K3, reproduced deterministically: the dispatch goroutine of the first packet is held, the second enters first
func (e *env) k3() {
	e.scen++
	id := e.scen
	w, err := newWorld(1, []string{"websocket"}, false, false)
	if err != nil {
		e.res.Inconclusive("rig", err.Error(), id)
		return
	}
	defer w.close()
	time.Sleep(20 * time.Millisecond)
	vtrace.Take()
	vtrace.Emit("reset", "scenario", id, "cfg", "k3-dispatch-reorder")
	ctl := gates.New()
	ctl.HoldIf(func(pt string, k any) bool { return pt == "conn.dispatch.start" })
	ctl.Install()
	defer gates.Uninstall()
	for n := 1; n <= 2; n++ {
		name, args, natt := argsFor(1, 1, n, 0, false)
		vtrace.Emit("emit.start", "p", []int{1, 1, n}, "natt", natt, "shape", 0)
		w.cs[0].Emit(name, args...)
	}
	// both dispatch goroutines stand at their first statement; release the second packet's first
	rig.WaitUntil(3*time.Second, func() bool { return len(ctl.Held()) >= 2 })
	held := ctl.Held()
	if len(held) >= 2 {
		ctl.Release(held[1])
		rig.WaitUntil(2*time.Second, func() bool { return atomic.LoadInt64(&w.got) >= 1 })
	}
	ctl.OpenAll()
	rig.WaitUntil(3*time.Second, func() bool { return atomic.LoadInt64(&w.got) >= 2 })
	time.Sleep(30 * time.Millisecond)
	vtrace.Emit("quiesce", "emitted", 2, "entered", atomic.LoadInt64(&w.got), "errors", 0)
	e.w.Write(vtrace.Take())
	e.res.Case("k3", true)
}

func run(t *testing.T, which string) {
	out := vres.OutDir()
	res := vres.New()
	res.Rule = "one case = one scenario (transport x recovery x clients x emitters x burst length x shapes/sizes) with every event tagged; distinct by parameters and seed; all non-trivial (concurrent emitters in both directions)"
	vtrace.Install()
	defer vtrace.Uninstall()
	vtrace.SetFilter(keep)
	vtrace.Convert = convert
	vtrace.WithGoroutine(false)
	w, err := vtrace.NewWriter(filepath.Join(out, "trace.ndjson"))
	if err != nil {
		t.Fatal(err)
	}
	e := &env{res: res, w: w}
	rng := rand.New(rand.NewSource(vres.Seed()))
	trs := [][]string{{"websocket"}, {"polling"}, {"polling", "websocket"}}
	all := []int{0, 1, 2, 3, 4, 5, 6}
	thorough := vres.Tier() == "thorough"
	if which == "C01" {
		// shapes and sizes matter: every transport x recovery off/on x 1..3 clients
		i := 0
		for _, tr := range trs {
			for _, rec := range []bool{false, true} {
				i++
				p := params{Transports: tr, Recovery: rec, Clients: 1 + i%3, Emitters: 2, Per: vres.Pick(30, 60), Big: true, Shapes: all}
				if !thorough && len(tr) == 1 && tr[0] == "polling" && rec {
					p.Per = 6
				}
				e.scenario(rng, p, "c01")
			}
		}
		// traffic over several heartbeats on a link with latency (the PONG shares the transport with the events and a request
		// takes long enough to overlap with it; small payloads: the proxy delays every 4 KiB chunk)
		for _, tr := range [][]string{{"polling"}, {"websocket"}} {
			e.scenario(rng, params{Transports: tr, Recovery: false, Clients: 1, Emitters: 3, Per: vres.Pick(80, 120), Big: false, Shapes: all, FastPing: true, Pace: 30 * time.Millisecond, SlowRT: 12 * time.Millisecond}, "c01")
		}
		// a small maxPayload: one packet with four attachments needs three polling payloads (two splits of one write batch)
		e.scenario(rng, params{Transports: []string{"polling"}, Recovery: false, Clients: 1, Emitters: 2, Per: vres.Pick(20, 60), Big: false, Shapes: []int{0, 5, 3, 1}, MaxBuf: 300}, "c01")
		if thorough {
			for i := 0; i < 24; i++ {
				e.scenario(rng, params{Transports: trs[i%3], Recovery: i%2 == 0, Clients: 1 + i%3, Emitters: 4, Per: 60, Big: i%3 == 0, Shapes: all}, "c01")
			}
		}
	} else {
		// order and contiguity: many emitters, bursts, 0..4 attachments, small payloads
		for i, tr := range trs {
			e.scenario(rng, params{Transports: tr, Recovery: false, Clients: 1, Emitters: vres.Pick(4, 16), Per: vres.Pick(40, 60), Big: false, Shapes: []int{0, 2, 3, 5}}, "c02")
			if thorough || i == 0 {
				e.scenario(rng, params{Transports: tr, Recovery: false, Clients: 2, Emitters: vres.Pick(3, 8), Per: vres.Pick(25, 60), Big: false, Shapes: all}, "c02")
			}
		}
		e.k3()
	}
	res.Scenarios = e.scen
	w.Close()
	if err := res.Write(out, "result.json"); err != nil {
		t.Fatal(err)
	}
}

func TestC01(t *testing.T) { run(t, "C01") }
func TestC02(t *testing.T) { run(t, "C02") }
