//go:build verif

// Drivers for C09 (Socket.IO encoding round trip, v5 format, input intact)
// and C10 (no input crashes or wedges the decoder or the process).
package c09

import (
	"bytes"
	"encoding/json"
	"fmt"
	"math/rand"
	"path/filepath"
	"reflect"
	"sort"
	"strconv"
	"strings"
	"sync"
	"sync/atomic"
	"testing"
	"time"

	sio "github.com/karagenc/socket.io-go"
	"github.com/karagenc/socket.io-go/parser"
	jsonparser "github.com/karagenc/socket.io-go/parser/json"
	"github.com/karagenc/socket.io-go/parser/json/serializer/stdjson"

	"verif/harness/raw"
	"verif/harness/rig"
	"verif/harness/vres"
	"verif/harness/vtrace"
)

// Node is the uniform tree of SioCodec.tla.
type Node struct {
	T    string   `json:"t"`
	V    string   `json:"v"`
	N    int      `json:"n"`
	Kids []Node   `json:"kids"`
	Keys []string `json:"keys"`
}

func leaf(t, v string, n int) Node { return Node{T: t, V: v, N: n, Kids: []Node{}, Keys: []string{}} }
func list(kids ...Node) Node {
	if kids == nil {
		kids = []Node{}
	}
	return Node{T: "list", Kids: kids, Keys: []string{}}
}
func mapn(keys []string, kids []Node) Node {
	idx := make([]int, len(keys))
	for i := range idx {
		idx[i] = i
	}
	sort.Slice(idx, func(a, b int) bool { return keys[idx[a]] < keys[idx[b]] })
	k2, n2 := make([]string, len(keys)), make([]Node, len(keys))
	for i, j := range idx {
		k2[i], n2[i] = keys[j], kids[j]
	}
	return Node{T: "map", Kids: n2, Keys: k2}
}

func payload(id int) []byte { return []byte(fmt.Sprintf("PAYLOAD-%d-\x00\x01\xff-%d", id, id*7919)) }

func numText(f float64) string { return strconv.FormatFloat(f, 'g', -1, 64) }

// ---- abstract tree -> Go values (several guises) ------------------------------

// generic: []any / map[string]any / Binary
func generic(n Node) any {
	switch n.T {
	case "num":
		f, _ := strconv.ParseFloat(n.V, 64)
		return f
	case "str":
		return n.V
	case "bool":
		return n.V == "true"
	case "null":
		return nil
	case "bin":
		return sio.Binary(payload(n.N))
	case "list":
		out := make([]any, len(n.Kids))
		for i, k := range n.Kids {
			out[i] = generic(k)
		}
		return out
	case "map":
		m := map[string]any{}
		for i, k := range n.Keys {
			m[k] = generic(n.Kids[i])
		}
		return m
	}
	return nil
}

// typed: maps become structs (reflect.StructOf), lists of bins []Binary, lists of maps []struct
func typeOf(n Node) reflect.Type {
	switch n.T {
	case "num":
		return reflect.TypeOf(float64(0))
	case "str":
		return reflect.TypeOf("")
	case "bool":
		return reflect.TypeOf(true)
	case "bin":
		return reflect.TypeOf(sio.Binary(nil))
	case "null":
		return reflect.TypeOf((*any)(nil)).Elem()
	case "list":
		if len(n.Kids) > 0 {
			et := typeOf(n.Kids[0])
			same := true
			for _, k := range n.Kids {
				if typeOf(k) != et {
					same = false
				}
			}
			if same && n.Kids[0].T != "null" {
				return reflect.SliceOf(et)
			}
		}
		return reflect.TypeOf([]any{})
	case "map":
		fs := make([]reflect.StructField, len(n.Keys))
		for i, k := range n.Keys {
			fs[i] = reflect.StructField{Name: fmt.Sprintf("F%d", i), Type: typeOf(n.Kids[i]), Tag: reflect.StructTag(fmt.Sprintf(`json:%q`, k))}
		}
		return reflect.StructOf(fs)
	}
	return reflect.TypeOf((*any)(nil)).Elem()
}

func typed(n Node) reflect.Value {
	t := typeOf(n)
	v := reflect.New(t).Elem()
	switch n.T {
	case "num", "str", "bool", "bin":
		v.Set(reflect.ValueOf(generic(n)).Convert(t))
	case "null":
	case "list":
		if t.Elem().Kind() == reflect.Interface {
			v.Set(reflect.ValueOf(generic(n)))
		} else {
			s := reflect.MakeSlice(t, len(n.Kids), len(n.Kids))
			for i, k := range n.Kids {
				s.Index(i).Set(typed(k))
			}
			v.Set(s)
		}
	case "map":
		for i := range n.Keys {
			v.Field(i).Set(typed(n.Kids[i]))
		}
	}
	return v
}

func hasBin(n Node) bool {
	if n.T == "bin" {
		return true
	}
	for _, k := range n.Kids {
		if hasBin(k) {
			return true
		}
	}
	return false
}

// ---- Go value -> tree (canonical) --------------------------------------------

var payloadID = map[string]int{}

func init() {
	for i := 0; i < 64; i++ {
		payloadID[string(payload(i))] = i
	}
}

func canon(v reflect.Value) Node {
	if !v.IsValid() {
		return leaf("null", "", 0)
	}
	for v.Kind() == reflect.Interface || v.Kind() == reflect.Ptr {
		if v.IsNil() {
			return leaf("null", "", 0)
		}
		v = v.Elem()
	}
	switch v.Kind() {
	case reflect.Float64, reflect.Float32:
		return leaf("num", numText(v.Float()), 0)
	case reflect.Int, reflect.Int64, reflect.Int32:
		return leaf("num", numText(float64(v.Int())), 0)
	case reflect.String:
		if v.Type() == reflect.TypeOf(json.Number("")) {
			f, _ := strconv.ParseFloat(v.String(), 64)
			return leaf("num", numText(f), 0)
		}
		return leaf("str", v.String(), 0)
	case reflect.Bool:
		return leaf("bool", strconv.FormatBool(v.Bool()), 0)
	case reflect.Slice:
		if v.Type().Elem().Kind() == reflect.Uint8 {
			id, ok := payloadID[string(v.Bytes())]
			if !ok {
				id = -1
			}
			return leaf("bin", "", id)
		}
		kids := make([]Node, v.Len())
		for i := range kids {
			kids[i] = canon(v.Index(i))
		}
		return list(kids...)
	case reflect.Map:
		// a placeholder object?
		if v.Len() == 2 {
			ph, num := v.MapIndex(reflect.ValueOf("_placeholder")), v.MapIndex(reflect.ValueOf("num"))
			if ph.IsValid() && num.IsValid() {
				pn, nn := canon(ph), canon(num)
				if pn.T == "bool" && pn.V == "true" && nn.T == "num" {
					f, _ := strconv.ParseFloat(nn.V, 64)
					return leaf("ph", "", int(f))
				}
			}
		}
		var keys []string
		var kids []Node
		for _, k := range v.MapKeys() {
			keys = append(keys, k.String())
			kids = append(kids, canon(v.MapIndex(k)))
		}
		return mapn(keys, kids)
	case reflect.Struct:
		var keys []string
		var kids []Node
		for i := 0; i < v.NumField(); i++ {
			name := v.Type().Field(i).Tag.Get("json")
			if name == "" {
				name = v.Type().Field(i).Name
			}
			keys = append(keys, name)
			kids = append(kids, canon(v.Field(i)))
		}
		return mapn(keys, kids)
	}
	return leaf("other", v.Kind().String(), 0)
}

// ---- generator of abstract trees ----------------------------------------------

type gen struct {
	rng  *rand.Rand
	nbin int
}

var strs = []string{"", "a", "héllo wörld ✓", `q"uo\te`, "x/y,z", "line\nbreak", " "}
var keysU = []string{"k", "a b", "_placeholder", "num", "ключ", "z"}

func (g *gen) leaf(allowBin bool) Node {
	switch g.rng.Intn(6) {
	case 0:
		return leaf("num", numText([]float64{0, 1, -1, 3.5, 1e21, 123456789}[g.rng.Intn(6)]), 0)
	case 1:
		return leaf("str", strs[g.rng.Intn(len(strs))], 0)
	case 2:
		return leaf("bool", strconv.FormatBool(g.rng.Intn(2) == 0), 0)
	case 3:
		return leaf("null", "", 0)
	default:
		if allowBin && g.nbin < 6 {
			g.nbin++
			return leaf("bin", "", g.rng.Intn(64))
		}
		return leaf("num", "7", 0)
	}
}

func (g *gen) tree(depth int) Node {
	if depth == 0 || g.rng.Intn(3) == 0 {
		return g.leaf(true)
	}
	n := g.rng.Intn(3)
	if g.rng.Intn(2) == 0 {
		kids := make([]Node, n)
		for i := range kids {
			kids[i] = g.tree(depth - 1)
		}
		return list(kids...)
	}
	var keys []string
	var kids []Node
	used := map[string]bool{}
	for i := 0; i <= n; i++ {
		k := keysU[g.rng.Intn(len(keysU))]
		if used[k] {
			continue
		}
		used[k] = true
		keys = append(keys, k)
		kids = append(kids, g.tree(depth-1))
	}
	// a map that looks like a placeholder is not a value the API can carry unambiguously
	if len(keys) == 2 && used["_placeholder"] && used["num"] {
		keys, kids = keys[:1], kids[:1]
	}
	return mapn(keys, kids)
}

// ---------------------------------------------------------------------------

var nspsU = []string{"/", "", "/a", "/a/b", "/é \"x\"", "/ns_1-2.3"}

func ints(b []byte) []int {
	out := make([]int, len(b))
	for i, c := range b {
		out[i] = int(c)
	}
	return out
}

func newParser() parser.Parser { return jsonparser.NewCreator(0, stdjson.New())() }

func deepCopyJSONish(v any) any { // snapshot for the input-preservation check
	return fmt.Sprintf("%#v", v)
}

func encRecord(w *vtrace.Writer, res *vres.Result, rng *rand.Rand, ptype parser.PacketType, nsp string, id *uint64, name string, args []Node, guise string) {
	p := newParser()
	// the value handed to Encode
	var v any
	vals := make([]any, 0, len(args)+1)
	if ptype == parser.PacketTypeEvent {
		vals = append(vals, name)
	}
	for _, a := range args {
		switch guise {
		case "generic":
			vals = append(vals, generic(a))
		case "typed":
			vals = append(vals, typed(a).Interface())
		case "pointer":
			tv := typed(a)
			pv := reflect.New(tv.Type())
			pv.Elem().Set(tv)
			if a.T == "bin" {
				vals = append(vals, tv.Interface()) // a Binary must not be a pointer
			} else {
				vals = append(vals, pv.Interface())
			}
		}
	}
	v = &vals
	origKids := []Node{}
	if ptype == parser.PacketTypeEvent {
		origKids = append(origKids, leaf("str", name, 0))
	}
	origKids = append(origKids, args...)
	orig := list(origKids...)
	before := deepCopyJSONish(vals)
	rec := vtrace.Rec{"ev": "enc", "type": int(ptype), "nsp": ints([]byte(nsp)), "guise": guise, "orig": orig}
	idDigits := []int{}
	if id != nil {
		idDigits = ints([]byte(strconv.FormatUint(*id, 10)))
	}
	rec["id"] = idDigits
	var frames, frames2 [][]byte
	var err error
	panicked := false
	func() {
		defer func() {
			if x := recover(); x != nil {
				panicked = true
				err = fmt.Errorf("panic: %v", x)
			}
		}()
		h := &parser.PacketHeader{Type: ptype, Namespace: nsp, ID: id}
		frames, err = p.Encode(h, v)
		if err == nil {
			h2 := &parser.PacketHeader{Type: ptype, Namespace: nsp, ID: id}
			frames2, err = p.Encode(h2, v)
		}
	}()
	rec["panicked"] = panicked
	rec["err"] = ""
	if err != nil {
		rec["err"] = err.Error()
	}
	rec["inputSame"] = deepCopyJSONish(vals) == before
	same := len(frames) == len(frames2)
	for i := range frames {
		if same && !bytes.Equal(frames[i], frames2[i]) {
			same = false
		}
	}
	rec["secondSame"] = same
	rec["nframes"] = len(frames)
	analyze := func(frames [][]byte) (header []int, encoded Node, atts []int, attsBinary bool) {
		header, encoded, atts, attsBinary = []int{}, leaf("null", "", 0), []int{}, true
		// split the first frame: header bytes up to the JSON payload
		if len(frames) > 0 {
			f0 := frames[0]
			j := bytes.IndexAny(f0, "[{")
			if j < 0 {
				j = len(f0)
			}
			// the namespace may contain JSON-looking bytes: the payload starts after the header the spec expects
			hdr := f0[:j]
			if nsp != "" && nsp != "/" {
				if k := bytes.Index(f0, []byte(nsp+",")); k >= 0 {
					rest := f0[k+len(nsp)+1:]
					d := 0
					for d < len(rest) && rest[d] >= '0' && rest[d] <= '9' {
						d++
					}
					hdr = f0[:k+len(nsp)+1+d]
				}
			}
			header = ints(hdr)
			var parsed any
			dec := json.NewDecoder(bytes.NewReader(f0[len(hdr):]))
			dec.UseNumber()
			if len(f0) > len(hdr) && dec.Decode(&parsed) == nil {
				encoded = canon(reflect.ValueOf(parsed))
			} else if len(f0) == len(hdr) {
				encoded = list()
			}
			for _, f := range frames[1:] {
				if pid, ok := payloadID[string(f)]; ok {
					atts = append(atts, pid)
				} else {
					atts = append(atts, -1)
					attsBinary = false
				}
			}
		}
		return
	}
	header, encoded, atts, attsBinary := analyze(frames)
	header2, encoded2, atts2, attsBinary2 := analyze(frames2)
	// the second encoding: same header, same number of frames, and valid in its own right
	// (map iteration order may number the attachments differently)
	rec["header2"], rec["encoded2"], rec["atts2"] = header2, encoded2, atts2
	rec["secondSame"] = len(frames) == len(frames2) && attsBinary2 && fmt.Sprint(header) == fmt.Sprint(header2)
	rec["header"], rec["encoded"], rec["atts"], rec["attsBinary"] = header, encoded, atts, attsBinary
	// decode with a fresh parser and matching types
	decHeaderOK, decoded, checked := false, leaf("null", "", 0), false
	decodedG, checkedG := leaf("null", "", 0), false
	func() {
		defer func() {
			if x := recover(); x != nil {
				rec["panicked"] = true
				rec["err"] = fmt.Sprintf("decode panic: %v", x)
			}
		}()
		q := newParser()
		var fin struct {
			h    *parser.PacketHeader
			name string
			dec  parser.Decode
		}
		done := false
		for i, f := range frames {
			e2 := q.Add(f, func(h *parser.PacketHeader, n string, d parser.Decode) {
				fin.h, fin.name, fin.dec, done = h, n, d, true
			})
			if e2 != nil || (done && i != len(frames)-1) {
				return
			}
		}
		if !done {
			return
		}
		wantNsp := nsp
		if wantNsp == "" {
			wantNsp = "/"
		}
		idOK := (id == nil && fin.h.ID == nil) || (id != nil && fin.h.ID != nil && *id == *fin.h.ID)
		decHeaderOK = fin.h.Namespace == wantNsp && idOK && fin.name == name && fin.h.Attachments == len(atts)
		// generic: every argument decoded into `any`
		{
			types := make([]reflect.Type, len(args))
			for i := range args {
				types[i] = reflect.TypeOf((*any)(nil))
			}
			vs, e3 := fin.dec(types...)
			if e3 == nil {
				kids := []Node{}
				if ptype == parser.PacketTypeEvent {
					kids = append(kids, leaf("str", fin.name, 0))
				}
				for _, x := range vs {
					kids = append(kids, canon(x))
				}
				decodedG, checkedG = list(kids...), true
			} else {
				rec["errG"] = "decode: " + e3.Error()
				checkedG = true
			}
		}
		ok := true
		if ok {
			types := make([]reflect.Type, len(args))
			for i, a := range args {
				types[i] = reflect.PtrTo(typeOf(a))
				if a.T == "bin" {
					types[i] = typeOf(a)
				}
			}
			vs, e3 := fin.dec(types...)
			if e3 == nil {
				kids := []Node{}
				if ptype == parser.PacketTypeEvent {
					kids = append(kids, leaf("str", fin.name, 0))
				}
				for _, x := range vs {
					kids = append(kids, canon(x))
				}
				decoded, checked = list(kids...), true
			} else {
				rec["err"] = "decode: " + e3.Error()
				checked = true
			}
		}
	}()
	rec["decHeaderOK"], rec["decoded"], rec["decodeChecked"] = decHeaderOK, decoded, checked
	rec["decodedG"], rec["decodeCheckedG"] = decodedG, checkedG
	w.Write([]vtrace.Rec{rec})
	res.Case(fmt.Sprint(ptype, nsp, id, name, args, guise), hasBin(orig) || len(args) > 0)
	if w.Lines()%1500 == 3 {
		res.Sample(rec)
	}
}

func TestC09(t *testing.T) {
	out := vres.OutDir()
	res := vres.New()
	res.Rule = "one case = one abstract packet (type, namespace incl. unusual characters, ack id incl. 0 and 2^64-1, event name incl. quotes/backslashes/unicode, 0-3 argument trees to depth 3 over num/str/bool/null/bin/list/map) materialized in one of three guises (generic []any/map, typed structs and typed slices, pointers), encoded twice and decoded with matching types; seeded; non-trivial when it has arguments"
	w, err := vtrace.NewWriter(filepath.Join(out, "trace.ndjson"))
	if err != nil {
		t.Fatal(err)
	}
	w.Write([]vtrace.Rec{{"ev": "reset", "scenario": 1, "cfg": "vectors"}})
	rng := rand.New(rand.NewSource(vres.Seed()))
	names := []string{"ev", "", "é✓", `na"me`, `back\slash`, "a b,c/d"}
	max := uint64(18446744073709551615)
	zero := uint64(0)
	ids := []*uint64{nil, &zero, &max, nil}
	n := vres.Pick(2500, 40000)
	for i := 0; i < n; i++ {
		g := &gen{rng: rng}
		nargs := rng.Intn(4)
		args := make([]Node, nargs)
		for j := range args {
			args[j] = g.tree(3)
		}
		ptype := []parser.PacketType{parser.PacketTypeEvent, parser.PacketTypeEvent, parser.PacketTypeAck}[rng.Intn(3)]
		id := ids[rng.Intn(len(ids))]
		if ptype == parser.PacketTypeAck && id == nil {
			id = &zero
		}
		if i%11 == 0 {
			v := rng.Uint64()
			id = &v
		}
		name := names[rng.Intn(len(names))]
		if ptype != parser.PacketTypeEvent {
			name = ""
		} else if name == "" {
			name = "ev"
		}
		encRecord(w, res, rng, ptype, nspsU[rng.Intn(len(nspsU))], id, name, args, []string{"generic", "typed", "pointer"}[i%3])
	}
	// control packets
	for _, nsp := range nspsU {
		encRecord(w, res, rng, parser.PacketTypeDisconnect, nsp, nil, "", nil, "generic")
	}
	w.Close()
	if err := res.Write(out, "result.json"); err != nil {
		t.Fatal(err)
	}
}

// ---------------------------------------------------------------------------
// C10

func hdrRecord(w *vtrace.Writer, res *vres.Result, in []byte) {
	p := newParser()
	rec := vtrace.Rec{"ev": "hdr", "bytes": ints(in), "ok": false, "type": 0, "att": 0, "nsp": []int{}, "id": []int{}, "panicked": false}
	func() {
		defer func() {
			if x := recover(); x != nil {
				rec["panicked"] = true
				rec["msg"] = fmt.Sprint(x)
			}
		}()
		h, _, err := jsonparser.VerifParseHeader(p, in)
		if err == nil && h != nil {
			rec["ok"] = true
			rec["type"] = int(h.Type)
			rec["att"] = h.Attachments
			rec["nsp"] = ints([]byte(h.Namespace))
			if h.ID != nil {
				rec["id"] = ints([]byte(strconv.FormatUint(*h.ID, 10)))
			}
		}
	}()
	w.Write([]vtrace.Rec{rec})
	res.Case("hdr"+string(in), len(in) > 1)
}

type frameOut struct {
	Bytes []int  `json:"bytes"`
	Out   string `json:"out"`
	Rem   int    `json:"rem"`
}

var sigTypes = [][]reflect.Type{
	{reflect.TypeOf(sio.Binary(nil))},
	{reflect.TypeOf(&map[string]any{})},
	{reflect.TypeOf((*any)(nil))},
	{reflect.TypeOf(&struct {
		A sio.Binary             `json:"a"`
		M map[string]any         `json:"m"`
		L []sio.Binary           `json:"l"`
		S struct{ B sio.Binary } `json:"s"`
	}{})},
	{},
	{reflect.TypeOf(&[]any{})},
	{reflect.TypeOf(&[]map[string]any{})},
	{reflect.TypeOf(&map[string]map[string]any{})},
	{reflect.TypeOf(&map[string][]any{})},
	{reflect.TypeOf(&map[string]sio.Binary{})},
	{reflect.TypeOf(&[]sio.Binary{})},
	{reflect.TypeOf(new(int)), reflect.TypeOf((*any)(nil))},
	{reflect.TypeOf(new(int)), reflect.TypeOf(&map[string]any{})},
}

// placeholder grid: where the placeholder object stands x what its num is x how many attachments the header announces
var phPositions = []string{`["ev",%s]`, `["ev",[%s]]`, `["ev",{"m":%s}]`, `["ev",{"m":{"x":%s}}]`, `["ev",{"l":[%s]}]`, `["ev",{"s":{"B":%s}}]`,
	`["ev",{"a":%s}]`, `["ev",[{"k":%s}]]`, `["ev",{"m":[{"q":%s}]}]`, `[%s]`, `["ev",1,%s]`, `["ev",1,{"m":%s}]`, `["ev",{"m":%s,"a":%s}]`}
var phNums = []string{`-1e30`, `-2`, `-1`, `-0.5`, `0`, `0.5`, `1`, `1.5`, `2`, `3`, `4`, `1e30`, `1e300`, `"x"`, `true`, `null`, `[0]`, `{}`}

func phObjects() []string {
	out := []string{`{"_placeholder":true}`, `{"_placeholder":false,"num":0}`, `{"_placeholder":1,"num":0}`, `{"num":0}`, `{"_placeholder":true,"num":0,"extra":1}`}
	for _, n := range phNums {
		out = append(out, `{"_placeholder":true,"num":`+n+`}`, `{"num":`+n+`,"_placeholder":true}`)
	}
	return out
}

// a frame sequence through a real parser, then every finished packet decoded against every handler signature family
func decRecord(w *vtrace.Writer, res *vres.Result, frames [][]byte, class string) {
	p := newParser()
	rec := vtrace.Rec{"ev": "dec", "class": class, "panicked": false, "hung": false, "decodeTotal": true}
	outs := make([]frameOut, 0, len(frames))
	done := make(chan struct{})
	go func() {
		defer close(done)
		defer func() {
			if x := recover(); x != nil {
				rec["panicked"] = true
				rec["msg"] = fmt.Sprint(x)
			}
		}()
		for _, f := range frames {
			var decs []parser.Decode
			err := p.Add(f, func(h *parser.PacketHeader, n string, d parser.Decode) { decs = append(decs, d) })
			o := frameOut{Bytes: ints(f), Rem: jsonparser.VerifRemaining(p)}
			switch {
			case err != nil:
				o.Out = "error"
				p.Reset()
				o.Rem = 0
			case len(decs) > 0:
				o.Out = "finish"
			default:
				o.Out = "none"
			}
			outs = append(outs, o)
			for _, d := range decs {
				for _, ts := range sigTypes {
					func() {
						defer func() {
							if x := recover(); x != nil {
								rec["panicked"] = true
								rec["msg"] = fmt.Sprintf("decode closure: %v", x)
							}
						}()
						d(ts...)
					}()
				}
			}
		}
	}()
	select {
	case <-done:
	case <-time.After(3 * time.Second):
		rec["hung"] = true
	}
	if len(outs) > 24 {
		outs = outs[:24]
	}
	rec["frames"] = outs
	w.Write([]vtrace.Rec{rec})
	res.Case(fmt.Sprint("dec", frames), true)
	if w.Lines()%4000 == 9 {
		res.Sample(rec)
	}
}

func allStrings(alpha []byte, maxLen int, f func([]byte)) {
	var rec func(cur []byte)
	rec = func(cur []byte) {
		f(cur)
		if len(cur) == maxLen {
			return
		}
		for _, c := range alpha {
			rec(append(append([]byte{}, cur...), c))
		}
	}
	rec(nil)
}

// live: malformed frames against a running server with a healthy second connection
func liveRecord(w *vtrace.Writer, res *vres.Result, frames []string, class string) {
	var errs, handled int64
	var smu sync.Mutex
	var ssocks []sio.ServerSocket
	srv, err := rig.NewServer(nil, func(io *sio.Server) {
		io.Of("/").Use(func(s sio.ServerSocket, h *sio.Handshake) any {
			s.OnEvent("echo", func(x int, ack func(int)) { ack(x) })
			s.OnEvent("bin", func(b sio.Binary) { atomic.AddInt64(&handled, 1) })
			s.OnEvent("m", func(m map[string]any) { atomic.AddInt64(&handled, 1) })
			s.OnError(func(err error) { atomic.AddInt64(&errs, 1) })
			smu.Lock()
			ssocks = append(ssocks, s)
			smu.Unlock()
			return nil
		})
	})
	if err != nil {
		res.Inconclusive("live", err.Error(), 0)
		return
	}
	defer srv.Close()
	m := rig.NewManager(srv.URL(), []string{"websocket"}, &sio.ManagerConfig{NoReconnection: true})
	defer m.Close()
	healthy, ok := rig.ConnectSocket(m, "/", nil, 4*time.Second)
	if !ok {
		res.Inconclusive("live", "healthy client did not connect", 0)
		return
	}
	echo := func(s sio.ClientSocket, x int) bool {
		ch := make(chan int, 1)
		s.Emit("echo", x, func(y int) { ch <- y })
		select {
		case y := <-ch:
			return y == x
		case <-time.After(3 * time.Second):
			return false
		}
	}
	rc, err := raw.Dial(srv.URL())
	if err != nil {
		res.Inconclusive("live", err.Error(), 0)
		return
	}
	rc.Send("40")
	rc.WaitFor(2*time.Second, func(ps []string) bool { return len(ps) > 0 })
	for _, f := range frames {
		rc.Send(f)
	}
	closed := rig.WaitUntil(1500*time.Millisecond, func() bool { return rc.Closed() })
	if !closed {
		// the session may be gone although the poll loop did not see a CLOSE packet
		st, _ := rc.Send("42[\"noop\"]")
		closed = st != 200
	}
	// when the offender was not cut off its socket must still be usable from the server's side: an emit with an
	// acknowledgement returns, and one with a time-out reports the time-out (nobody answers)
	offenderUsable := true
	if !closed {
		smu.Lock()
		var off sio.ServerSocket
		if len(ssocks) >= 2 {
			off = ssocks[1]
		}
		smu.Unlock()
		if off != nil {
			ret, to := make(chan struct{}), make(chan struct{}, 1)
			go func() {
				off.Emit("probe", 1, func(int) {})
				off.Timeout(100*time.Millisecond).Emit("probe", 2, func(err error, x int) { to <- struct{}{} })
				close(ret)
			}()
			select {
			case <-ret:
				select {
				case <-to:
				case <-time.After(2 * time.Second):
					offenderUsable = false
				}
			case <-time.After(2 * time.Second):
				offenderUsable = false
			}
		}
	}
	rc.Abandon()
	healthyWorks := echo(healthy, 41)
	m2 := rig.NewManager(srv.URL(), []string{"polling"}, &sio.ManagerConfig{NoReconnection: true})
	later, ok2 := rig.ConnectSocket(m2, "/", nil, 4*time.Second)
	laterWorks := ok2 && echo(later, 42)
	m2.Close()
	rec := vtrace.Rec{"ev": "live", "class": class, "frames": frames, "processAlive": true, "healthyWorks": healthyWorks, "laterWorks": laterWorks,
		"offenderClosed": closed, "errorReported": atomic.LoadInt64(&errs) > 0, "accepted": atomic.LoadInt64(&handled) > 0, "offenderUsable": offenderUsable}
	w.Write([]vtrace.Rec{rec})
	res.Case("live "+class, true)
	res.Sample(rec)
}

func TestC10(t *testing.T) {
	out := vres.OutDir()
	res := vres.New()
	res.Rule = "hdr: every byte string up to length 4 (thorough 5) over the 12 protocol-significant bytes given to the real header reader; dec: frame sequences (class representatives x placeholder classes x up to 3 frames, seeded mutations of valid packets) through a real parser, each finished packet decoded against 5 handler signature families under a watchdog; live: malformed frames sent to a running server with a healthy connection"
	w, err := vtrace.NewWriter(filepath.Join(out, "trace.ndjson"))
	if err != nil {
		t.Fatal(err)
	}
	w.Write([]vtrace.Rec{{"ev": "reset", "scenario": 1, "cfg": "vectors"}})
	alpha := []byte{'0', '2', '5', '6', '9', '-', '/', ',', '"', '[', ']', 'a'}
	allStrings(alpha, vres.Pick(4, 5), func(b []byte) {
		hdrRecord(w, res, b)
		if len(b) <= 3 {
			decRecord(w, res, [][]byte{b}, "short")
		}
	})
	res.Count("hdr_records", w.Lines())
	// header classes
	heads := []string{"2", "2/a,", "2/a", "21", "2/a,1", "51-", "5-", "5x-", "50-", "52-", "5999999999-", "518446744073709551615-", "599999999999999999999999-",
		"6", "61-", "61-/a,7", "3", "31", "399999999999999999999999", "0", "0/a,", "0/abc", "1", "4", "7", "9"}
	bodies := []string{"", `["ev"]`, `["ev",1]`, `["ev"`, `{"a":1}`, `[1]`, `[]`, `"x"`, `["ev",{"_placeholder":true,"num":0}]`,
		`["ev",{"_placeholder":true,"num":5}]`, `["ev",{"_placeholder":true,"num":-4}]`, `["ev",{"_placeholder":true,"num":"x"}]`,
		`["ev",{"_placeholder":true,"num":0},{"_placeholder":true,"num":0}]`, `["ev",{"m":{"_placeholder":true,"num":-1}}]`,
		`["ev",{"a":{"_placeholder":true,"num":0},"l":[{"_placeholder":true,"num":9}],"s":{"B":{"_placeholder":true,"num":-2}}}]`,
		`[{"_placeholder":true,"num":-1}]`, `["ev",{"_placeholder":true,"num":1e30}]`, `["ev",{"_placeholder":true,"num":-1e30}]`}
	rng := rand.New(rand.NewSource(vres.Seed()))
	for _, h := range heads {
		for _, b := range bodies {
			f0 := []byte(h + b)
			decRecord(w, res, [][]byte{f0}, "class")
			decRecord(w, res, [][]byte{f0, []byte("BIN1")}, "class+1")
			decRecord(w, res, [][]byte{f0, []byte("BIN1"), []byte("BIN2"), []byte(`2["ev"]`)}, "class+3")
		}
	}
	// the placeholder grid, with exactly as many binary frames as announced
	for _, pos := range phPositions {
		for _, obj := range phObjects() {
			body := strings.ReplaceAll(pos, "%s", obj)
			for _, typ := range []string{"5", "6"} {
				for cnt := 1; cnt <= 3; cnt++ {
					fs := [][]byte{[]byte(fmt.Sprintf("%s%d-%s", typ, cnt, body))}
					for k := 0; k < cnt; k++ {
						fs = append(fs, []byte(fmt.Sprintf("BIN%d", k)))
					}
					decRecord(w, res, fs, "phgrid")
				}
			}
		}
	}
	res.Count("phgrid_records", w.Lines())
	// grammar-aware mutations of valid packets
	valid := []string{`2["ev",1,"a"]`, `2/a,12["ev",{"k":[1,2]}]`, `51-["ev",{"_placeholder":true,"num":0}]`, `52-/n,3["e",{"_placeholder":true,"num":1},{"_placeholder":true,"num":0}]`, `0{"sid":"x"}`, `3/a,7[1]`, `61-1[{"_placeholder":true,"num":0}]`}
	for i := 0; i < vres.Pick(3000, 60000); i++ {
		b := []byte(valid[rng.Intn(len(valid))])
		for k := 0; k <= rng.Intn(3); k++ {
			switch rng.Intn(4) {
			case 0:
				if len(b) > 0 {
					j := rng.Intn(len(b))
					b = append(b[:j], b[j+1:]...)
				}
			case 1:
				j := rng.Intn(len(b) + 1)
				b = append(b[:j], append([]byte{alpha[rng.Intn(len(alpha))]}, b[j:]...)...)
			case 2:
				if len(b) > 0 {
					b[rng.Intn(len(b))] = alpha[rng.Intn(len(alpha))]
				}
			case 3:
				b = b[:rng.Intn(len(b)+1)]
			}
		}
		decRecord(w, res, [][]byte{b, []byte("B1"), []byte("B2")}, "mutation")
	}
	res.Count("dec_records", w.Lines())
	w.Close()
	if err := res.Write(out, "result.json"); err != nil {
		t.Fatal(err)
	}
}

// TestC10Live runs in its own process: a panic in one of the server's bare goroutines kills the
// process, which the runner reports as the violation it is.
func TestC10Live(t *testing.T) {
	out := vres.OutDir()
	res := vres.New()
	res.Rule = "live: one malformed frame sequence per case sent by a raw peer to a running server with a healthy connection open"
	w, err := vtrace.NewWriter(filepath.Join(out, "trace.ndjson"))
	if err != nil {
		t.Fatal(err)
	}
	w.Write([]vtrace.Rec{{"ev": "reset", "scenario": 1, "cfg": "live"}})
	// process level
	for _, fs := range [][]string{
		{`431["x"]`}, {`43424242["x"]`, `43424242["x"]`}, {`461-7[{"_placeholder":true,"num":0}]`, "bQUJD"},
		{`40/abc`}, {`42/abc`}, {`451-["bin",{"_placeholder":true,"num":-4}]`, "bQUJD"}, {`451-["m",{"x":{"_placeholder":true,"num":-7}}]`, "bQUJD"},
		{`4518446744073709551615-["bin"]`}, {`45x-["bin"]`}, {`42["bin",{"_placeholder":true,"num":0}]`}, {`42["echo","notanumber"]`}, {`4`}, {`49`},
		{`451-["bin",{"_placeholder":true,"num":3}]`, "bQUJD"},
	} {
		liveRecord(w, res, fs, strings.Join(fs, "|"))
	}
	w.Close()
	if err := res.Write(out, "result.json"); err != nil {
		t.Fatal(err)
	}
}

var _ = sync.Mutex{}
