//go:build verif

// Driver for C18 (handler registries).  Vector replay: every operation on
// every small state of the real stores (raw handlerStore / eventHandlerStore
// and the same stores reached through the public Namespace API), logged as
// {pre, op, post, res} and judged by Handlers.tla's reference semantics.
// Trace validation: concurrent Fire/On/Once/Off on the real stores with the
// hooks under the store mutex.  End to end: racing occurrences against
// OnceEvent handlers on a live server socket.
package c18

import (
	"fmt"
	"math/rand"
	"net/http/httptest"
	"path/filepath"
	"reflect"
	"sync"
	"sync/atomic"
	"testing"
	"time"

	sio "github.com/karagenc/socket.io-go"
	"nhooyr.io/websocket"

	"verif/harness/vres"
	"verif/harness/vtrace"
)

// three distinct handlers per signature (distinct function literals => distinct code pointers)
func fA()                    {}
func fB()                    { _ = 1 }
func fC()                    { _ = 2 }
func cA(s sio.ServerSocket)  {}
func cB(s sio.ServerSocket)  { _ = 1 }
func cC(s sio.ServerSocket)  { _ = 2 }

var plain = []func(){nil, fA, fB, fC}
var conn = []sio.NamespaceConnectionFunc{nil, cA, cB, cC}

func ptr(f any) uintptr { return reflect.ValueOf(f).Pointer() }

var idOf = map[uintptr]int{}

func init() {
	for i := 1; i <= 3; i++ {
		idOf[ptr(plain[i])] = i
		idOf[ptr(conn[i])] = i
	}
}

func ids(ps []uintptr) []int {
	out := make([]int, len(ps))
	for i, p := range ps {
		out[i] = idOf[p]
	}
	return out
}

type lists map[string][]int // event -> handler ids

type state struct {
	Subs lists `json:"subs"`
	On   lists `json:"on"`
	Once lists `json:"once"`
}

type sut interface {
	Name() string
	Events() []string
	HasSubs() bool
	New()
	Do(op, e string, args []int) []int // may panic
	Read() state
	Hold(e string) func() []int // fire, keeping the slice that was handed out
}

// ---- raw handlerStore -----------------------------------------------------
type rawHS struct{ s *sio.VerifHandlerStore }

func (r *rawHS) Name() string     { return "hs" }
func (r *rawHS) Events() []string { return []string{"_"} }
func (r *rawHS) HasSubs() bool    { return true }
func (r *rawHS) New()             { r.s = sio.VerifNewHandlerStore() }
func fresh(i int) *func()         { f := plain[i]; return &f }
func (r *rawHS) Do(op, e string, a []int) []int {
	switch op {
	case "on":
		r.s.On(fresh(a[0]))
	case "once":
		r.s.Once(fresh(a[0]))
	case "onsub":
		// sub-events are removed by pointer identity: use one stable pointer per handler
		r.s.OnSub(subPtr[a[0]])
	case "offsub":
		r.s.OffSub(subPtr[a[0]])
	case "offsubs":
		r.s.OffSubs()
	case "off":
		fs := make([]*func(), len(a))
		for i, x := range a {
			fs[i] = fresh(x)
		}
		r.s.Off(fs...)
	case "offallof":
		r.s.Off()
	case "offall":
		r.s.OffAll()
	case "fire":
		return idsF(r.s.Fire())
	}
	return []int{}
}

var subPtr = []*func(){nil, fresh(1), fresh(2), fresh(3)}

func idsF(fs []*func()) []int {
	out := make([]int, len(fs))
	for i, f := range fs {
		out[i] = idOf[ptr(*f)]
	}
	return out
}
func (r *rawHS) Hold(e string) func() []int {
	h := r.s.FireHold()
	return func() []int { return ids(h.Ptrs()) }
}
func (r *rawHS) Read() state {
	s, o, c := r.s.List()
	return state{lists{"_": idsF(s)}, lists{"_": idsF(o)}, lists{"_": idsF(c)}}
}

// ---- raw eventHandlerStore --------------------------------------------------
type rawEHS struct{ s *sio.VerifEventHandlerStore }

func (r *rawEHS) Name() string     { return "ehs" }
func (r *rawEHS) Events() []string { return []string{"a", "b"} }
func (r *rawEHS) HasSubs() bool    { return false }
func (r *rawEHS) New()             { r.s = sio.VerifNewEventHandlerStore() }
func (r *rawEHS) Do(op, e string, a []int) []int {
	switch op {
	case "on":
		r.s.On(e, plain[a[0]])
	case "once":
		r.s.Once(e, plain[a[0]])
	case "off":
		fs := make([]any, len(a))
		for i, x := range a {
			fs[i] = plain[x]
		}
		r.s.Off(e, fs...)
	case "offallof":
		r.s.Off(e)
	case "offall":
		r.s.OffAll()
	case "fire":
		return ids(r.s.Fire(e))
	}
	return []int{}
}
func (r *rawEHS) Hold(e string) func() []int {
	h := r.s.FireHold(e)
	return func() []int { return ids(h.Ptrs()) }
}
func (r *rawEHS) Read() state {
	st := state{lists{}, lists{}, lists{}}
	for _, e := range r.Events() {
		on, once := r.s.List(e)
		st.Subs[e], st.On[e], st.Once[e] = []int{}, ids(on), ids(once)
	}
	return st
}

// ---- public API: Namespace.On/Once/OffConnection ----------------------------
type apiConn struct {
	io  *sio.Server
	nsp *sio.Namespace
}

func (r *apiConn) Name() string     { return "api-connection" }
func (r *apiConn) Events() []string { return []string{"_"} }
func (r *apiConn) HasSubs() bool    { return false }
func (r *apiConn) New()             { r.io = sio.NewServer(nil); r.nsp = r.io.Of("/t") }
func (r *apiConn) Do(op, e string, a []int) []int {
	switch op {
	case "on":
		r.nsp.OnConnection(conn[a[0]])
	case "once":
		r.nsp.OnceConnection(conn[a[0]])
	case "off":
		fs := make([]sio.NamespaceConnectionFunc, len(a))
		for i, x := range a {
			fs[i] = conn[x]
		}
		r.nsp.OffConnection(fs...)
	case "offallof":
		r.nsp.OffConnection()
	case "offall":
		r.nsp.OffAll()
	case "fire":
		return ids(sio.VerifNamespaceFireConnection(r.nsp))
	}
	return []int{}
}
func (r *apiConn) Hold(e string) func() []int {
	h := sio.VerifNamespaceFireConnectionHold(r.nsp)
	return func() []int { return ids(h.Ptrs()) }
}
func (r *apiConn) Read() state {
	s, o, c := sio.VerifNamespaceConnectionHandlers(r.nsp)
	return state{lists{"_": ids(s)}, lists{"_": ids(o)}, lists{"_": ids(c)}}
}

// ---- public API: Namespace.On/Once/OffEvent -----------------------------------
type apiEvent struct {
	io  *sio.Server
	nsp *sio.Namespace
	s   *sio.VerifEventHandlerStore
}

func (r *apiEvent) Name() string     { return "api-event" }
func (r *apiEvent) Events() []string { return []string{"a", "b"} }
func (r *apiEvent) HasSubs() bool    { return false }
func (r *apiEvent) New() {
	r.io = sio.NewServer(nil)
	r.nsp = r.io.Of("/t")
	r.s = sio.VerifNamespaceEventStore(r.nsp)
}
func (r *apiEvent) Do(op, e string, a []int) []int {
	switch op {
	case "on":
		r.nsp.OnEvent(e, plain[a[0]])
	case "once":
		r.nsp.OnceEvent(e, plain[a[0]])
	case "off":
		fs := make([]any, len(a))
		for i, x := range a {
			fs[i] = plain[x]
		}
		r.nsp.OffEvent(e, fs...)
	case "offallof":
		r.nsp.OffEvent(e)
	case "offall":
		r.nsp.OffAll()
	case "fire":
		return ids(r.s.Fire(e))
	}
	return []int{}
}
func (r *apiEvent) Hold(e string) func() []int {
	h := r.s.FireHold(e)
	return func() []int { return ids(h.Ptrs()) }
}
func (r *apiEvent) Read() state {
	st := state{lists{}, lists{}, lists{}}
	for _, e := range r.Events() {
		on, once := r.s.List(e)
		st.Subs[e], st.On[e], st.Once[e] = []int{}, ids(on), ids(once)
	}
	return st
}

// ---------------------------------------------------------------------------

type op struct {
	Op   string
	E    string
	Args []int
}

func seqs(maxLen int) [][]int {
	out := [][]int{{}}
	prev := [][]int{{}}
	for l := 1; l <= maxLen; l++ {
		var cur [][]int
		for _, p := range prev {
			for h := 1; h <= 3; h++ {
				cur = append(cur, append(append([]int{}, p...), h))
			}
		}
		out = append(out, cur...)
		prev = cur
	}
	return out
}

func opsFor(s sut) []op {
	var out []op
	for _, e := range s.Events() {
		for h := 1; h <= 3; h++ {
			out = append(out, op{"on", e, []int{h}}, op{"once", e, []int{h}})
			if s.HasSubs() {
				out = append(out, op{"onsub", e, []int{h}}, op{"offsub", e, []int{h}})
			}
		}
		if s.HasSubs() {
			out = append(out, op{"offsubs", e, []int{}})
		}
		for _, a := range seqs(2)[1:] {
			out = append(out, op{"off", e, a})
		}
		out = append(out, op{"off", e, []int{1, 2, 3}}, op{"off", e, []int{3, 2, 1}})
		if s.Name() == "api-event" || s.Name() == "ehs" {
			// handler 0 is a nil func: naming it removes nothing (in particular it is not "no handler named")
			out = append(out, op{"off", e, []int{0}}, op{"off", e, []int{0, 0}}, op{"off", e, []int{0, 2}})
		}
		out = append(out, op{"offallof", e, []int{}}, op{"fire", e, []int{}})
	}
	out = append(out, op{"offall", s.Events()[0], []int{}})
	return out
}

type runner struct {
	res  *vres.Result
	w    *vtrace.Writer
	seen map[string]bool
	n    int
	hung bool
}

func (r *runner) build(s sut, st state) {
	s.New()
	for _, e := range s.Events() {
		for _, h := range st.Subs[e] {
			s.Do("onsub", e, []int{h})
		}
		for _, h := range st.On[e] {
			s.Do("on", e, []int{h})
		}
		for _, h := range st.Once[e] {
			s.Do("once", e, []int{h})
		}
	}
}

// step applies o on the real store, logs {pre, op, post, res}.
func (r *runner) step(s sut, o op, dedupe bool) {
	pre := s.Read()
	var res []int
	var post state
	panicked := 0
	pmsg := ""
	fin := make(chan struct{})
	go func() {
		defer close(fin)
		func() {
			defer func() {
				if x := recover(); x != nil {
					panicked = 1
					pmsg = fmt.Sprint(x)
					res = []int{}
				}
			}()
			res = s.Do(o.Op, o.E, o.Args)
		}()
		post = s.Read()
	}()
	select {
	case <-fin:
	case <-time.After(3 * time.Second):
		// the operation (or the read-back after a panic) never returned: a mutex was left locked
		panicked, res, post = 2, []int{}, pre
		if pmsg == "" {
			pmsg = "operation or read-back blocked for 3 s"
		} else {
			pmsg += "; afterwards the store's mutex stayed locked (read-back blocked for 3 s)"
		}
		s.New()
		r.hung = true
	}
	rec := vtrace.Rec{"ev": "step", "sut": s.Name(), "op": o.Op, "e": o.E, "args": o.Args,
		"pre": pre, "post": post, "res": res, "panic": panicked}
	if pmsg != "" {
		rec["panicmsg"] = pmsg
	}
	key := fmt.Sprint(s.Name(), o, pre, post, res, panicked)
	nontrivial := len(pre.On[o.E])+len(pre.Once[o.E])+len(pre.Subs[o.E]) > 0
	r.res.Case(key, nontrivial)
	if dedupe && r.seen[key] {
		return
	}
	r.seen[key] = true
	r.n++
	r.w.Write([]vtrace.Rec{rec})
	if r.n%5000 == 1 {
		r.res.Sample(rec)
	}
}

func (r *runner) exhaustive(s sut, lOn, lOnce, lSubs, lOther int) {
	evs := s.Events()
	ops := opsFor(s)
	subsSeqs := [][]int{{}}
	if s.HasSubs() {
		subsSeqs = seqs(lSubs)
	}
	e0 := evs[0]
	var others []state
	if len(evs) > 1 {
		for _, on := range seqs(lOther) {
			for _, once := range seqs(lOther) {
				others = append(others, state{lists{evs[1]: {}}, lists{evs[1]: on}, lists{evs[1]: once}})
			}
		}
	} else {
		others = []state{{lists{}, lists{}, lists{}}}
	}
	for _, su := range subsSeqs {
		for _, on := range seqs(lOn) {
			for _, once := range seqs(lOnce) {
				for _, ot := range others {
					st := state{lists{e0: su}, lists{e0: on}, lists{e0: once}}
					for k, v := range ot.Subs {
						st.Subs[k] = v
					}
					for k, v := range ot.On {
						st.On[k] = v
					}
					for k, v := range ot.Once {
						st.Once[k] = v
					}
					for _, o := range ops {
						r.build(s, st)
						r.step(s, o, false)
					}
				}
			}
		}
	}
}

// random long sequences on one store instance (hidden state: slice aliasing, capacities)
func (r *runner) sequences(s sut, rng *rand.Rand, n, length int) {
	ops := opsFor(s)
	for i := 0; i < n; i++ {
		s.New()
		var held []heldFire
		for j := 0; j < length; j++ {
			o := ops[rng.Intn(len(ops))]
			st := s.Read()
			if (o.Op == "on" && len(st.On[o.E]) >= 5) || (o.Op == "once" && len(st.Once[o.E]) >= 5) || (o.Op == "onsub" && len(st.Subs[o.E]) >= 4) {
				continue
			}
			if o.Op == "fire" && j%2 == 0 {
				// an occurrence that is still iterating its handlers while the registry changes
				pre := s.Read()
				get := s.Hold(o.E)
				snap := get()
				want := append(append(append([]int{}, pre.Subs[o.E]...), pre.On[o.E]...), pre.Once[o.E]...)
				if fmt.Sprint(snap) != fmt.Sprint(want) {
					r.res.Violation("fire-result-wrong", fmt.Sprintf("%s: fire(%s) in state %v returned %v", s.Name(), o.E, pre, snap), i, nil)
				}
				held = append(held, heldFire{get, snap, fmt.Sprintf("%s fire(%s) #%d", s.Name(), o.E, j)})
				r.res.Case(fmt.Sprint("hold", s.Name(), pre, o), len(want) > 0)
				continue
			}
			r.step(s, o, true)
			if r.hung {
				r.hung = false
				break
			}
			for _, h := range held {
				if now := h.get(); fmt.Sprint(now) != fmt.Sprint(h.snap) {
					r.res.Violation("fire-result-mutated",
						fmt.Sprintf("the handler list handed to an occurrence (%s) was %v and became %v after a later %s(%s,%v): an occurrence still iterating would run the wrong handlers",
							h.desc, h.snap, now, o.Op, o.E, o.Args), i, nil)
					h.snap = now
				}
			}
		}
	}
}

// overlap: an occurrence keeps iterating the list it was handed while later
// registrations and occurrences happen, for every size of the On list (slice capacities).
func (r *runner) overlap(s sut) {
	for _, e := range s.Events() {
		for n := 0; n <= 17; n++ {
			for m := 1; m <= 2; m++ {
				s.New()
				for i := 0; i < n; i++ {
					s.Do("on", e, []int{1 + i%3})
				}
				for i := 0; i < m; i++ {
					s.Do("once", e, []int{1 + (i+1)%3})
				}
				pre := s.Read()
				get := s.Hold(e)
				snap := get()
				want := append(append(append([]int{}, pre.Subs[e]...), pre.On[e]...), pre.Once[e]...)
				if fmt.Sprint(snap) != fmt.Sprint(want) {
					r.res.Violation("fire-result-wrong", fmt.Sprintf("%s: fire(%s) in state %v returned %v", s.Name(), e, pre, snap), n, nil)
				}
				follow := []op{{"once", e, []int{3}}, {"fire", e, []int{}}, {"on", e, []int{2}}, {"once", e, []int{1}}, {"fire", e, []int{}}, {"off", e, []int{1}}, {"on", e, []int{3}}}
				for _, o := range follow {
					s.Do(o.Op, o.E, o.Args)
					if now := get(); fmt.Sprint(now) != fmt.Sprint(snap) {
						r.res.Violation("fire-result-mutated",
							fmt.Sprintf("%s: the handler list handed to an occurrence of %q (%d On + %d Once handlers) was %v and became %v after a later %s(%v): an occurrence still iterating runs the wrong handlers",
								s.Name(), e, n, m, snap, now, o.Op, o.Args), n, nil)
						break
					}
				}
				r.res.Case(fmt.Sprint("overlap", s.Name(), e, n, m), true)
			}
		}
	}
}

type heldFire struct {
	get  func() []int
	snap []int
	desc string
}

// ---------------------------------------------------------------------------
// concurrent runs: hooks under the store mutex -> hs.* records

func (r *runner) concurrentRaw(rng *rand.Rand, scen int) {
	vtrace.Take()
	vtrace.ResetIDs()
	vtrace.Emit("reset", "scenario", scen, "cfg", "concurrent-raw")
	hs := sio.VerifNewHandlerStore()
	ehs := sio.VerifNewEventHandlerStore()
	var wg sync.WaitGroup
	nfire := 4 + rng.Intn(4)
	var onceRegs, onceRuns [4]int64
	for g := 0; g < nfire; g++ {
		wg.Add(1)
		go func() {
			defer wg.Done()
			defer r.guard(scen)
			for i := 0; i < 40; i++ {
				for _, f := range hs.Fire() {
					_ = f
				}
				res := ehs.Fire("a")
				_ = res
				if i%7 == 0 {
					time.Sleep(50 * time.Microsecond)
				}
			}
		}()
	}
	for g := 0; g < 3; g++ {
		g := g
		wg.Add(1)
		go func() {
			defer wg.Done()
			defer r.guard(scen)
			for i := 0; i < 30; i++ {
				h := 1 + (g+i)%3
				hs.Once(fresh(h))
				ehs.Once("a", plain[h])
				atomic.AddInt64(&onceRegs[h], 1)
				if i%5 == 0 {
					hs.On(fresh(h))
					ehs.On("a", plain[h])
				}
				if i%11 == 3 {
					hs.Off(fresh(h))
					ehs.Off("a", plain[h])
				}
			}
		}()
	}
	wg.Wait()
	_ = onceRuns
	vtrace.Emit("quiesce")
	r.w.Write(vtrace.Take())
	r.res.Case(fmt.Sprintf("concurrent-raw-%d", scen), true)
}

func (r *runner) guard(scen int) {
	if x := recover(); x != nil {
		r.res.Violation("concurrent-panic", fmt.Sprint("registry operation panicked during a concurrent run: ", x), scen, nil)
	}
}

// end to end: racing occurrences against OnceEvent / OnEvent handlers of a live server socket
func (r *runner) endToEnd(scen int, transports []string) {
	vtrace.Take()
	vtrace.ResetIDs()
	vtrace.Emit("reset", "scenario", scen, "cfg", "e2e-once")
	cfg := &sio.ServerConfig{}
	cfg.EIO.WebSocketAcceptOptions = &websocket.AcceptOptions{CompressionMode: websocket.CompressionDisabled}
	io := sio.NewServer(cfg)
	var onceRuns, onRuns int64
	const N = 24
	done := make(chan struct{}, N*2)
	ready := make(chan struct{})
	io.Of("/").Use(func(socket sio.ServerSocket, handshake *sio.Handshake) any {
		socket.OnceEvent("x", func(i int) { atomic.AddInt64(&onceRuns, 1); done <- struct{}{} })
		socket.OnEvent("x", func(i int) { atomic.AddInt64(&onRuns, 1); done <- struct{}{} })
		return nil
	})
	io.OnConnection(func(socket sio.ServerSocket) { close(ready) })
	if err := io.Run(); err != nil {
		r.res.Inconclusive("e2e", err.Error(), scen)
		return
	}
	ts := httptest.NewServer(io)
	mcfg := &sio.ManagerConfig{}
	mcfg.EIO.Transports = transports
	mcfg.EIO.WebSocketDialOptions = &websocket.DialOptions{CompressionMode: websocket.CompressionDisabled}
	m := sio.NewManager(ts.URL, mcfg)
	c := m.Socket("/", nil)
	c.Connect()
	select {
	case <-ready:
	case <-time.After(5 * time.Second):
		r.res.Inconclusive("e2e", "no connection", scen)
		io.Close()
		ts.Close()
		return
	}
	var wg sync.WaitGroup
	for i := 0; i < N; i++ {
		i := i
		wg.Add(1)
		go func() { defer wg.Done(); c.Emit("x", i) }()
	}
	wg.Wait()
	dl := time.After(5 * time.Second)
	got := 0
loop:
	for got < N+1 {
		select {
		case <-done:
			got++
		case <-dl:
			break loop
		}
	}
	time.Sleep(50 * time.Millisecond)
	vtrace.Emit("note", "onceRuns", atomic.LoadInt64(&onceRuns), "onRuns", atomic.LoadInt64(&onRuns), "n", N)
	if n := atomic.LoadInt64(&onceRuns); n != 1 {
		r.res.Violation("e2e-once-ran-not-once", fmt.Sprintf("OnceEvent handler ran %d times for %d racing occurrences", n, N), scen, nil)
	}
	if n := atomic.LoadInt64(&onRuns); n != N {
		if got < N+1 {
			r.res.Inconclusive("e2e", fmt.Sprintf("only %d of %d events arrived in time", n, N), scen)
		} else {
			r.res.Violation("e2e-on-missed", fmt.Sprintf("OnEvent handler ran %d times for %d occurrences", n, N), scen, nil)
		}
	}
	m.Close()
	io.Close()
	ts.Close()
	// keep only registry records of this scenario
	recs := vtrace.Take()
	var keep []vtrace.Rec
	for _, x := range recs {
		ev := x["ev"].(string)
		if len(ev) > 3 && ev[:3] == "hs." || ev == "reset" || ev == "note" {
			keep = append(keep, x)
		}
	}
	r.w.Write(keep)
	r.res.Case(fmt.Sprintf("e2e-%d", scen), true)
}

func TestC18(t *testing.T) {
	out := vres.OutDir()
	res := vres.New()
	res.Rule = "one case = one operation applied to a real registry in a given state (exhaustive over states x operations within the bounds in counters, plus seeded random sequences, concurrent runs and end-to-end races); non-trivial when the touched event has at least one registration; distinct by (store, op, pre, post, result)"
	w, err := vtrace.NewWriter(filepath.Join(out, "trace.ndjson"))
	if err != nil {
		t.Fatal(err)
	}
	r := &runner{res: res, w: w, seen: map[string]bool{}}
	w.Write([]vtrace.Rec{{"ev": "reset", "scenario": 0, "cfg": "vectors"}})
	thorough := vres.Tier() == "thorough"
	// vectors: hooks off (no sink) so that only step records are written
	suts := []sut{&rawHS{}, &rawEHS{}, &apiConn{}, &apiEvent{}}
	for _, s := range suts {
		switch s.Name() {
		case "hs":
			if thorough {
				r.exhaustive(s, 4, 2, 1, 0)
			} else {
				r.exhaustive(s, 3, 2, 1, 0)
			}
		case "api-connection":
			if thorough {
				r.exhaustive(s, 4, 3, 0, 0)
			} else {
				r.exhaustive(s, 3, 2, 0, 0)
			}
		default:
			if thorough {
				r.exhaustive(s, 3, 2, 0, 1)
			} else {
				r.exhaustive(s, 2, 1, 0, 1)
			}
		}
		res.Count("vectors_"+s.Name(), r.n)
	}
	res.Exhaustive = true
	rng := rand.New(rand.NewSource(vres.Seed()))
	for _, s := range suts {
		r.sequences(s, rng, vres.Pick(150, 3000), 14)
	}
	for _, s := range suts {
		r.overlap(s)
	}
	res.Count("records_after_sequences", r.n)

	// concurrent + end to end, with the sink on
	vtrace.Install()
	defer vtrace.Uninstall()
	vtrace.WithGoroutine(false)
	scen := 0
	for i := 0; i < vres.Pick(4, 40); i++ {
		scen++
		r.concurrentRaw(rng, scen)
	}
	for i := 0; i < vres.Pick(3, 20); i++ {
		scen++
		tr := [][]string{{"polling"}, {"websocket"}, {"polling", "websocket"}}[i%3]
		r.endToEnd(scen, tr)
	}
	res.Scenarios = scen
	w.Close()
	if err := res.Write(out, "result.json"); err != nil {
		t.Fatal(err)
	}
}
