package vres

import (
	"fmt"
	"os"
	"path/filepath"
	"regexp"
	"runtime"
	"strings"
	"time"
)

var (
	wedgeHead  = regexp.MustCompile(`^goroutine \d+ \[(sync\.Mutex\.Lock|sync\.RWMutex\.R?Lock|semacquire), (\d+) minutes\]:`)
	wedgeFrame = regexp.MustCompile(`/repo/(\S+\.go:\d+)`)
)

// WedgeWatch looks at all goroutines every 15 s. A goroutine that has been waiting for a mutex for a minute or
// more from a statement of the library is a wedge: no scenario of a driver lasts that long, and nothing that
// runs later can be judged. The violation is recorded, the result written and the process ended (exit 3).
// finish stops the watch.
func WedgeWatch(res *Result, out, sig string, scenario func() int) (finish func()) {
	stop := make(chan struct{})
	go func() {
		for {
			select {
			case <-stop:
				return
			case <-time.After(15 * time.Second):
			}
			buf := make([]byte, 8<<20)
			n := runtime.Stack(buf, true)
			for _, blk := range strings.Split(string(buf[:n]), "\n\n") {
				if !wedgeHead.MatchString(blk) {
					continue
				}
				m := wedgeFrame.FindStringSubmatch(blk)
				if m == nil {
					continue
				}
				os.WriteFile(filepath.Join(out, "wedge.stacks.txt"), buf[:n], 0o644)
				res.Violation(sig+":wedged:"+m[1], fmt.Sprintf("a goroutine of the library has been waiting for a mutex for a minute or more at %s; the mutex was left locked or is held for ever:\n%s", m[1], blk), scenario(), map[string]any{"at": m[1]})
				res.Write(out, "result.json")
				os.Exit(3)
			}
		}
	}()
	return func() { close(stop) }
}
