//go:build verif

// Package vres is the result file every driver writes for the runner.
package vres

import (
	"encoding/json"
	"fmt"
	"os"
	"path/filepath"
	"strconv"
	"sync"
)

type Verdict struct {
	Kind     string `json:"kind"` // "violation" | "inconclusive"
	Sig      string `json:"sig"`  // classification key (matched against known_findings.json)
	Detail   string `json:"detail"`
	Scenario int    `json:"scenario"`
	Repro    any    `json:"repro,omitempty"`
}

type Result struct {
	mu          sync.Mutex
	Scenarios   int            `json:"scenarios"`
	Evaluations int            `json:"evaluations"`
	Distinct    int            `json:"distinct_nontrivial"`
	Rule        string         `json:"rule"`
	Samples     []any          `json:"samples"`
	Verdicts    []Verdict      `json:"verdicts"`
	Counters    map[string]int `json:"counters"`
	Exhaustive  bool           `json:"exhaustive"`
	distinct    map[string]bool
}

func New() *Result { return &Result{Counters: map[string]int{}, distinct: map[string]bool{}} }

func (r *Result) Count(k string, n int) { r.mu.Lock(); r.Counters[k] += n; r.mu.Unlock() }

// Case records one evaluated case; key identifies it for the distinct count, nontrivial says whether it counts.
func (r *Result) Case(key string, nontrivial bool) {
	r.mu.Lock()
	defer r.mu.Unlock()
	r.Evaluations++
	if nontrivial && !r.distinct[key] {
		r.distinct[key] = true
		r.Distinct++
	}
}

func (r *Result) Sample(s any) {
	r.mu.Lock()
	defer r.mu.Unlock()
	if len(r.Samples) < 5 {
		r.Samples = append(r.Samples, s)
	}
}

func (r *Result) Violation(sig, detail string, scenario int, repro any) {
	r.mu.Lock()
	defer r.mu.Unlock()
	if len(r.Verdicts) < 200 {
		r.Verdicts = append(r.Verdicts, Verdict{Kind: "violation", Sig: sig, Detail: detail, Scenario: scenario, Repro: repro})
	}
}

func (r *Result) Inconclusive(sig, detail string, scenario int) {
	r.mu.Lock()
	defer r.mu.Unlock()
	if len(r.Verdicts) < 200 {
		r.Verdicts = append(r.Verdicts, Verdict{Kind: "inconclusive", Sig: sig, Detail: detail, Scenario: scenario})
	}
}

func (r *Result) Write(dir, name string) error {
	r.mu.Lock()
	defer r.mu.Unlock()
	b, err := json.MarshalIndent(r, "", " ")
	if err != nil {
		return err
	}
	return os.WriteFile(filepath.Join(dir, name), b, 0o644)
}

// Env helpers -------------------------------------------------------------

func OutDir() string {
	d := os.Getenv("VERIF_OUT")
	if d == "" {
		d, _ = os.MkdirTemp("", "verif-out-")
	}
	os.MkdirAll(d, 0o755)
	return d
}

func Tier() string {
	if t := os.Getenv("VERIF_TIER"); t == "thorough" {
		return t
	}
	return "quick"
}

func Seed() int64 {
	s, err := strconv.ParseInt(os.Getenv("VERIF_SEED"), 10, 64)
	if err != nil {
		return 1
	}
	return s
}

func Pick(quick, thorough int) int {
	if Tier() == "thorough" {
		return thorough
	}
	return quick
}

func Sprintf(f string, a ...any) string { return fmt.Sprintf(f, a...) }
