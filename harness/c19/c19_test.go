//go:build verif

// Driver for C19 (no lost wake-up): replays TLC-generated schedules of
// WakeQueue.tla on the real pollQueue / packetQueue with the yield points as
// scheduler gates, runs the same placements through a real polling
// ServerTransport with HTTP requests, and adds ungated stress runs. Every
// scenario is logged for validation against WakeQueueTrace.tla and judged
// here from what the real code did.
package c19

import (
	"encoding/json"
	"fmt"
	"io"
	"math/rand"
	"net/http"
	"net/http/httptest"
	"os"
	"path/filepath"
	"runtime"
	"sort"
	"strings"
	"sync"
	"testing"
	"time"

	sio "github.com/karagenc/socket.io-go"
	eioparser "github.com/karagenc/socket.io-go/engine.io/parser"
	"github.com/karagenc/socket.io-go/engine.io/transport"
	"github.com/karagenc/socket.io-go/engine.io/transport/polling"

	"verif/harness/gates"
	"verif/harness/vres"
	"verif/harness/vtrace"
)

type script struct {
	Cfg   string     `json:"cfg"`
	Kind  string     `json:"kind"`
	Mode  string     `json:"mode"` // closer mode
	Polls int        `json:"polls"`
	Steps [][]string `json:"steps"`
}

type env struct {
	res    *vres.Result
	wPoll  *vtrace.Writer
	wPkt   *vtrace.Writer
	scen   int
	out    string
	settle time.Duration
}

func mkpkt(tag string) *eioparser.Packet {
	p, _ := eioparser.NewPacket(eioparser.PacketTypeMessage, false, []byte(tag))
	return p
}

func tags(ps []*eioparser.Packet) []string {
	out := make([]string, len(ps))
	for i, p := range ps {
		out[i] = string(p.Data)
	}
	return out
}

func (e *env) begin(kind, cfg string, extra ...any) int {
	e.scen++
	vtrace.Take()
	vtrace.ResetIDs()
	kv := append([]any{"scenario", e.scen, "kind", kind, "cfg", cfg}, extra...)
	vtrace.Emit("reset", kv...)
	return e.scen
}

func (e *env) end(kind string) {
	recs := vtrace.Take()
	if kind == "poll" {
		e.wPoll.Write(recs)
	} else {
		e.wPkt.Write(recs)
	}
}

// expected gate point for a model action
var pointOf = map[string]string{
	"add": "start", "append": "start", "signal": "pq.add.beforeSignal",
	"get1": "pollstart", "park": "beforeWait",
	"drainchk": "start", "close": "closer.close", "reset": "start",
}

func heldAt(st string, act string) bool {
	want, ok := pointOf[act]
	if !ok || !strings.HasPrefix(st, "held:") {
		return false
	}
	pt := st[len("held:"):]
	switch want {
	case "beforeWait":
		return strings.HasSuffix(pt, ".poll.beforeWait")
	case "pollstart":
		return pt == "start" || pt == "pollstart"
	}
	return pt == want
}

// ---------------------------------------------------------------------------

func (e *env) runPollScript(sc script) {
	id := e.begin("poll", sc.Cfg, "steps", len(sc.Steps))
	q := polling.VerifNewPollQueue()
	ctl := gates.New()
	ctl.HoldAll()
	ctl.Install()
	defer gates.Uninstall()
	sch := gates.NewSched(ctl)

	procs := map[string]bool{}
	for _, st := range sc.Steps {
		procs[st[0]] = true
	}
	var mu sync.Mutex
	results := map[string][][]string{}
	gOf := map[string]int{}
	var added []string
	names := make([]string, 0, len(procs))
	for n := range procs {
		names = append(names, n)
	}
	sort.Strings(names)
	for _, n := range names {
		n := n
		if n[0] == 'p' {
			tag := fmt.Sprintf("s%d-%s", id, n)
			added = append(added, tag)
			sch.Spawn(n, func() any { q.Add(mkpkt(tag)); return nil })
		} else {
			sch.Spawn(n, func() any {
				mu.Lock()
				gOf[n] = vtrace.G()
				mu.Unlock()
				for i := 0; i < sc.Polls; i++ {
					if i > 0 {
						ctl.Gate("pollstart", n)
					}
					r := q.Poll(20 * time.Second)
					mu.Lock()
					results[n] = append(results[n], tags(r))
					mu.Unlock()
				}
				return nil
			})
		}
	}
	diverged := 0
	for _, st := range sc.Steps {
		if heldAt(sch.Status(st[0]), st[1]) {
			if _, err := sch.Step(st[0], e.settle); err != nil {
				e.res.Inconclusive("settle", err.Error(), id)
			}
		} else if _, ok := pointOf[st[1]]; ok {
			diverged++
		}
	}
	ctl.OpenAll()
	sch.Settle(e.settle)
	e.judge(id, "poll", sc, sch, names, func() int { return q.Len() }, gOf, diverged)

	// flush: unrelated adds release whoever is still parked
	for i := 0; i < 8; i++ {
		alldone := true
		for _, n := range names {
			if !sch.Proc(n).Done() {
				alldone = false
			}
		}
		if alldone {
			break
		}
		tag := fmt.Sprintf("s%d-flush%d", id, i)
		added = append(added, tag)
		q.Add(mkpkt(tag))
		sch.Settle(e.settle)
	}
	for _, n := range names {
		if !sch.WaitDone(n, 2*time.Second) {
			e.res.Inconclusive("cleanup", "process "+n+" did not finish: "+sch.Status(n), id)
		}
	}
	// exactly once: everything added was returned by some poll or is still queued
	var got []string
	mu.Lock()
	for _, n := range names {
		for _, r := range results[n] {
			got = append(got, r...)
		}
	}
	mu.Unlock()
	got = append(got, tags(q.Get())...)
	if d := diffMultiset(added, got); d != "" {
		e.res.Violation("poll-lost-or-dup", d, id, sc)
	}
	e.end("poll")
}

func diffMultiset(want, got []string) string {
	m := map[string]int{}
	for _, w := range want {
		m[w]++
	}
	for _, g := range got {
		m[g]--
	}
	var bad []string
	for k, v := range m {
		if v > 0 {
			bad = append(bad, "lost "+k)
		} else if v < 0 {
			bad = append(bad, "dup/alien "+k)
		}
	}
	sort.Strings(bad)
	return strings.Join(bad, "; ")
}

// judge emits the quiesce record and applies the stranded-consumer oracle to the real state.
func (e *env) judge(id int, kind string, sc any, sch *gates.Sched, names []string, qlen func() int, gOf map[string]int, diverged int) {
	parked := []int{}
	parkedNames := []string{}
	for _, n := range names {
		if n[0] != 'c' {
			continue
		}
		st := sch.Status(n)
		if st == "blocked:select" {
			parked = append(parked, gOf[n])
			parkedNames = append(parkedNames, n)
		} else if st != "done" {
			e.res.Inconclusive("unsettled", fmt.Sprintf("%s is %s at end of script", n, st), id)
		}
	}
	l := qlen()
	vtrace.Emit("quiesce", "len", l, "parked", parked)
	if len(parked) > 0 && l > 0 {
		// distinguish slow from never
		time.Sleep(300 * time.Millisecond)
		still := 0
		for _, n := range parkedNames {
			if sch.Status(n) == "blocked:select" {
				still++
			}
		}
		if still > 0 && qlen() > 0 {
			e.res.Violation(kind+"-stranded",
				fmt.Sprintf("consumer(s) %v parked with %d packet(s) queued and nothing in flight (300 ms later still so)", parkedNames, qlen()),
				id, sc)
		}
	}
	e.res.Case(fmt.Sprint(sc), true)
	e.res.Count("diverged_steps", diverged)
}

// ---------------------------------------------------------------------------

type fakeSocket struct {
	mu   sync.Mutex
	sent []string
}

func (f *fakeSocket) ID() string                  { return "fake" }
func (f *fakeSocket) PingInterval() time.Duration { return time.Second }
func (f *fakeSocket) PingTimeout() time.Duration  { return time.Second }
func (f *fakeSocket) TransportName() string       { return "fake" }
func (f *fakeSocket) Close()                      {}
func (f *fakeSocket) Send(packets ...*eioparser.Packet) {
	f.mu.Lock()
	f.sent = append(f.sent, tags(packets)...)
	f.mu.Unlock()
}

func (e *env) runPacketScript(sc script) {
	id := e.begin("packet", sc.Cfg, "steps", len(sc.Steps))
	q := sio.VerifNewPacketQueue()
	ctl := gates.New()
	ctl.HoldAll()
	ctl.Install()
	defer gates.Uninstall()
	sch := gates.NewSched(ctl)
	fs := &fakeSocket{}

	procs := map[string]bool{}
	for _, st := range sc.Steps {
		procs[st[0]] = true
	}
	names := make([]string, 0, len(procs))
	for n := range procs {
		names = append(names, n)
	}
	sort.Strings(names)
	var mu sync.Mutex
	gOf := map[string]int{}
	var added []string
	closed := false
	for _, n := range names {
		n := n
		switch n[0] {
		case 'p':
			tag := fmt.Sprintf("s%d-%s", id, n)
			added = append(added, tag)
			sch.Spawn(n, func() any { q.Add(mkpkt(tag)); return nil })
		case 'c':
			sch.Spawn(n, func() any {
				mu.Lock()
				gOf[n] = vtrace.G()
				mu.Unlock()
				q.PollAndSend(fs)
				return nil
			})
		case 'k':
			if sc.Mode == "reset" {
				sch.Spawn(n, func() any { q.Reset(); return nil })
			} else {
				closed = true
				sch.Spawn(n, func() any {
					q.WaitForDrain(time.Second)
					ctl.Gate("closer.close", n)
					q.Close()
					return nil
				})
			}
		}
	}
	diverged := 0
	for _, st := range sc.Steps {
		if heldAt(sch.Status(st[0]), st[1]) {
			if _, err := sch.Step(st[0], e.settle); err != nil {
				e.res.Inconclusive("settle", err.Error(), id)
			}
		} else if _, ok := pointOf[st[1]]; ok {
			diverged++
		}
	}
	ctl.OpenAll()
	// the closer may legitimately sit in waitForDrain for up to its time-out
	deadline := time.Now().Add(3 * time.Second)
	for time.Now().Before(deadline) {
		sch.Settle(e.settle)
		alldone := true
		for _, n := range names {
			if n[0] != 'c' && !sch.Proc(n).Done() {
				alldone = false
			}
		}
		if alldone {
			break
		}
		time.Sleep(5 * time.Millisecond)
	}
	sch.Settle(e.settle)
	e.judge(id, "packet", sc, sch, names, func() int { return q.Len() }, gOf, diverged)

	if closed {
		// after close the sender goroutine must exit once idle
		for _, n := range names {
			if n[0] == 'c' && !sch.WaitDone(n, 2*time.Second) {
				e.res.Violation("packet-sender-not-terminated", "pollAndSend still running 2 s after close(): "+sch.Status(n), id, sc)
			}
		}
	}
	// what was sent must be what was added, minus what close/reset dropped, in FIFO order
	fs.mu.Lock()
	sent := append([]string(nil), fs.sent...)
	fs.mu.Unlock()
	if sc.Mode == "none" {
		if d := diffMultiset(added, append(sent, tags(q.Get())...)); d != "" {
			e.res.Violation("packet-lost-or-dup", d, id, sc)
		}
	} else {
		seen := map[string]bool{}
		for _, s := range sent {
			if seen[s] {
				e.res.Violation("packet-lost-or-dup", "sent twice: "+s, id, sc)
			}
			seen[s] = true
		}
	}
	if !closed {
		q.Close()
		for _, n := range names {
			if n[0] == 'c' {
				sch.WaitDone(n, 2*time.Second)
			}
		}
	}
	e.end("packet")
}

// ---------------------------------------------------------------------------
// HTTP level: the same placements through a real polling.ServerTransport.

func (e *env) runHTTP(name string, nsend int) {
	id := e.begin("poll", "http:"+name)
	cb := transport.NewCallbacks()
	const pollTimeout = 4 * time.Second
	tr := polling.NewServerTransport(cb, 0, pollTimeout)
	ctl := gates.New()
	key := tr.VerifQueueKey()
	ctl.HoldIf(func(pt string, k any) bool { return pt == "pollq.poll.beforeWait" && k == key })
	ctl.Install()
	defer gates.Uninstall()
	srv := httptest.NewServer(http.HandlerFunc(tr.ServeHTTP))
	defer srv.Close()

	type resp struct {
		body string
		dur  time.Duration
		err  error
	}
	get := func() chan resp {
		ch := make(chan resp, 1)
		go func() {
			t0 := time.Now()
			r, err := http.Get(srv.URL + "/?EIO=4&transport=polling")
			if err != nil {
				ch <- resp{err: err}
				return
			}
			b, _ := io.ReadAll(r.Body)
			r.Body.Close()
			ch <- resp{body: string(b), dur: time.Since(t0)}
		}()
		return ch
	}
	var want []string
	send := func() {
		for i := 0; i < nsend; i++ {
			tag := fmt.Sprintf("s%d-h%d", id, len(want))
			want = append(want, tag)
			tr.Send(mkpkt(tag))
		}
	}
	var ch chan resp
	t0 := time.Now()
	switch name {
	case "send-then-get":
		ctl.HoldIf(nil)
		send()
		t0 = time.Now()
		ch = get()
	case "get-pending-then-send":
		ch = get()
		w := ctl.WaitFor(func(w *gates.Waiter) bool { return true }, 3*time.Second)
		if w == nil {
			e.res.Inconclusive("http", "GET never reached the yield point", id)
			e.end("poll")
			return
		}
		ctl.Release(w)
		// wait until the handler goroutine sits in the select
		dl := time.Now().Add(2 * time.Second)
		for time.Now().Before(dl) && gates.States()[w.GID] != "select" {
			time.Sleep(200 * time.Microsecond)
		}
		t0 = time.Now()
		send()
	case "send-in-window":
		ch = get()
		w := ctl.WaitFor(func(w *gates.Waiter) bool { return true }, 3*time.Second)
		if w == nil {
			e.res.Inconclusive("http", "GET never reached the yield point", id)
			e.end("poll")
			return
		}
		send() // exactly between the emptiness check and the wait
		t0 = time.Now()
		ctl.Release(w)
	}
	ctl.HoldIf(nil)
	var r resp
	select {
	case r = <-ch:
	case <-time.After(pollTimeout + 3*time.Second):
		e.res.Inconclusive("http", "GET did not return", id)
		e.end("poll")
		return
	}
	lat := time.Since(t0)
	// a second GET picks up whatever the first one left behind
	body := r.body
	if tr.VerifQueueLen() > 0 {
		r2 := <-get()
		body += "\x1e" + r2.body
	}
	vtrace.Emit("quiesce", "len", tr.VerifQueueLen(), "parked", []int{})
	missing := []string{}
	for _, w := range want {
		if !strings.Contains(r.body, w) {
			missing = append(missing, w)
		}
	}
	e.res.Case("http:"+name+fmt.Sprint(nsend), true)
	if r.err != nil {
		e.res.Inconclusive("http", r.err.Error(), id)
	} else if lat > pollTimeout/2 || (len(missing) > 0 && len(missing) == len(want)) {
		e.res.Violation("http-poll-waited-or-empty",
			fmt.Sprintf("%s: packets %v were queued while the GET was pending/arriving, but the GET answered %q after %v (poll time-out %v); later GET(s) got %q",
				name, want, r.body, lat.Round(time.Millisecond), pollTimeout, body),
			id, map[string]any{"http": name, "nsend": nsend})
	}
	for _, w := range want {
		if strings.Count(body, w) != 1 {
			e.res.Violation("http-lost-or-dup", fmt.Sprintf("%s: %s appears %d times in %q", name, w, strings.Count(body, w), body), id, nil)
		}
	}
	e.end("poll")
}

// ---------------------------------------------------------------------------
// Ungated stress with random yields: exercises time-outs and chance interleavings.

func (e *env) runPollStress(rng *rand.Rand, nprod, per, ncons int, pollTimeout time.Duration) {
	id := e.begin("poll", "stress", "nprod", nprod, "per", per, "ncons", ncons)
	q := polling.VerifNewPollQueue()
	ctl := gates.New()
	ctl.Install()
	defer gates.Uninstall()
	seed := rng.Int63()
	var ymu sync.Mutex
	yr := rand.New(rand.NewSource(seed))
	ctl.HoldIf(func(string, any) bool {
		ymu.Lock()
		k := yr.Intn(4)
		ymu.Unlock()
		switch k {
		case 0:
			runtime.Gosched()
		case 1:
			time.Sleep(time.Duration(50+k*37) * time.Microsecond)
		}
		return false
	})
	total := nprod * per
	var wg sync.WaitGroup
	var added []string
	for p := 0; p < nprod; p++ {
		for i := 0; i < per; i++ {
			added = append(added, fmt.Sprintf("s%d-p%d-%d", id, p, i))
		}
	}
	for p := 0; p < nprod; p++ {
		p := p
		delay := time.Duration(rng.Intn(3000)) * time.Microsecond
		wg.Add(1)
		go func() {
			defer wg.Done()
			for i := 0; i < per; i++ {
				time.Sleep(delay)
				q.Add(mkpkt(fmt.Sprintf("s%d-p%d-%d", id, p, i)))
			}
		}()
	}
	var mu sync.Mutex
	var got []string
	stop := make(chan struct{})
	var cwg sync.WaitGroup
	for c := 0; c < ncons; c++ {
		cwg.Add(1)
		go func() {
			defer cwg.Done()
			for {
				select {
				case <-stop:
					return
				default:
				}
				r := q.Poll(pollTimeout)
				mu.Lock()
				got = append(got, tags(r)...)
				n := len(got)
				mu.Unlock()
				if n >= total {
					return
				}
			}
		}()
	}
	wg.Wait()
	dl := time.Now().Add(5 * time.Second)
	for time.Now().Before(dl) {
		mu.Lock()
		n := len(got)
		mu.Unlock()
		if n >= total {
			break
		}
		time.Sleep(time.Millisecond)
	}
	close(stop)
	// release consumers that are still inside a poll
	done := make(chan struct{})
	go func() { cwg.Wait(); close(done) }()
	select {
	case <-done:
	case <-time.After(pollTimeout + 2*time.Second):
		e.res.Inconclusive("stress", "consumers did not finish", id)
	}
	vtrace.Emit("quiesce", "len", q.Len(), "parked", []int{})
	mu.Lock()
	if d := diffMultiset(added, append(got, tags(q.Get())...)); d != "" {
		e.res.Violation("poll-lost-or-dup", d, id, map[string]any{"stress": seed})
	}
	mu.Unlock()
	e.res.Case(fmt.Sprintf("stress-%d", seed), true)
	e.end("poll")
}

func (e *env) runPacketStress(rng *rand.Rand, nprod, per int) {
	id := e.begin("packet", "stress", "nprod", nprod, "per", per)
	q := sio.VerifNewPacketQueue()
	ctl := gates.New()
	ctl.Install()
	defer gates.Uninstall()
	seed := rng.Int63()
	var ymu sync.Mutex
	yr := rand.New(rand.NewSource(seed))
	ctl.HoldIf(func(string, any) bool {
		ymu.Lock()
		k := yr.Intn(4)
		ymu.Unlock()
		switch k {
		case 0:
			runtime.Gosched()
		case 1:
			time.Sleep(60 * time.Microsecond)
		}
		return false
	})
	fs := &fakeSocket{}
	sdone := make(chan struct{})
	go func() { q.PollAndSend(fs); close(sdone) }()
	var wg sync.WaitGroup
	var added []string
	for p := 0; p < nprod; p++ {
		for i := 0; i < per; i++ {
			added = append(added, fmt.Sprintf("s%d-p%d-%d", id, p, i))
		}
	}
	for p := 0; p < nprod; p++ {
		p := p
		delay := time.Duration(rng.Intn(2000)) * time.Microsecond
		wg.Add(1)
		go func() {
			defer wg.Done()
			for i := 0; i < per; i++ {
				time.Sleep(delay)
				q.Add(mkpkt(fmt.Sprintf("s%d-p%d-%d", id, p, i)))
			}
		}()
	}
	wg.Wait()
	total := len(added)
	// every packet must be sent without any further add: wait, bounded
	dl := time.Now().Add(2 * time.Second)
	for time.Now().Before(dl) {
		fs.mu.Lock()
		n := len(fs.sent)
		fs.mu.Unlock()
		if n >= total {
			break
		}
		time.Sleep(500 * time.Microsecond)
	}
	fs.mu.Lock()
	sent := append([]string(nil), fs.sent...)
	fs.mu.Unlock()
	vtrace.Emit("quiesce", "len", q.Len(), "parked", []int{})
	if len(sent) < total {
		e.res.Violation("packet-stranded", fmt.Sprintf("%d of %d packets not sent 2 s after the last add (queue length %d)", total-len(sent), total, q.Len()), id, map[string]any{"stress": seed})
	} else if d := diffMultiset(added, sent); d != "" {
		e.res.Violation("packet-lost-or-dup", d, id, map[string]any{"stress": seed})
	}
	// per-producer order
	last := map[string]int{}
	for _, s := range sent {
		var sid, p, i int
		fmt.Sscanf(s, "s%d-p%d-%d", &sid, &p, &i)
		k := fmt.Sprint(p)
		if v, ok := last[k]; ok && i <= v {
			e.res.Violation("packet-reordered", fmt.Sprintf("producer %d: %d sent after %d", p, i, v), id, nil)
		}
		last[k] = i
	}
	q.Close()
	select {
	case <-sdone:
	case <-time.After(2 * time.Second):
		e.res.Violation("packet-sender-not-terminated", "pollAndSend still running 2 s after close()", id, nil)
	}
	e.res.Case(fmt.Sprintf("pstress-%d", seed), true)
	e.end("packet")
}

// ---------------------------------------------------------------------------

func TestC19(t *testing.T) {
	out := vres.OutDir()
	res := vres.New()
	res.Rule = "one case = one schedule (controllable projection of a maximal TLC behaviour of WakeQueueGen, HTTP placement, or seeded stress run) executed on the real queue; all are non-trivial (>=1 producer and >=1 consumer interleave); distinct by script text / seed"
	vtrace.Install()
	defer vtrace.Uninstall()
	wp, err := vtrace.NewWriter(filepath.Join(out, "trace_poll.ndjson"))
	if err != nil {
		t.Fatal(err)
	}
	wk, err := vtrace.NewWriter(filepath.Join(out, "trace_packet.ndjson"))
	if err != nil {
		t.Fatal(err)
	}
	e := &env{res: res, wPoll: wp, wPkt: wk, out: out, settle: 2 * time.Second}

	var scripts []script
	if f := os.Getenv("VERIF_SCRIPTS"); f != "" {
		b, err := os.ReadFile(f)
		if err != nil {
			t.Fatal(err)
		}
		if err := json.Unmarshal(b, &scripts); err != nil {
			t.Fatal(err)
		}
	}
	for _, sc := range scripts {
		if len(res.Samples) < 3 {
			res.Sample(sc)
		}
		if sc.Kind == "poll" {
			e.runPollScript(sc)
		} else {
			e.runPacketScript(sc)
		}
	}
	res.Count("scripts", len(scripts))

	for _, name := range []string{"send-then-get", "get-pending-then-send", "send-in-window"} {
		for _, n := range []int{1, 2} {
			e.runHTTP(name, n)
			res.Count("http", 1)
		}
	}

	rng := rand.New(rand.NewSource(vres.Seed()))
	nstress := vres.Pick(6, 60)
	for i := 0; i < nstress; i++ {
		e.runPollStress(rng, 1+rng.Intn(4), 1+rng.Intn(5), 1+rng.Intn(2), time.Duration(20+rng.Intn(60))*time.Millisecond)
		e.runPacketStress(rng, 1+rng.Intn(6), 1+rng.Intn(8))
		res.Count("stress", 2)
	}

	res.Scenarios = e.scen
	wp.Close()
	wk.Close()
	if err := res.Write(out, "result.json"); err != nil {
		t.Fatal(err)
	}
}
