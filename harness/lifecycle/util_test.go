//go:build verif

package lifecycle

import (
	mapset "github.com/deckarep/golang-set/v2"
	"github.com/karagenc/socket.io-go/adapter"
)

func nil2() mapset.Set[adapter.Room] { return mapset.NewSet[adapter.Room]() }
