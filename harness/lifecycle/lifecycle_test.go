//go:build verif

// Drivers for C05 (namespace isolation), C06 (every connection end reported
// once, nothing left) and C12 (middlewares gate admission and events): real
// servers, Go clients, raw protocol clients and a byte-cutting TCP proxy; all
// hook records plus the harness's handler records go to ServerConnTrace.tla.
package lifecycle

import (
	"encoding/json"
	"errors"
	"fmt"
	"io"
	"math/rand"
	"net/http"
	"net/http/httptest"
	"path/filepath"
	"sort"
	"strings"
	"sync"
	"sync/atomic"
	"testing"
	"time"

	sio "github.com/karagenc/socket.io-go"
	"github.com/karagenc/socket.io-go/adapter"
	eio "github.com/karagenc/socket.io-go/engine.io"

	"verif/harness/proxy"
	"verif/harness/raw"
	"verif/harness/rig"
	"verif/harness/vres"
	"verif/harness/vtrace"
)

func keep(name string) bool {
	for _, p := range []string{"mw.", "nspstore.", "rooms.", "ssocket.", "connstore.", "conn.", "h.", "client.", "eiostore."} {
		if strings.HasPrefix(name, p) {
			return true
		}
	}
	return name == "reset" || name == "quiesce" || name == "residue" || name == "note"
}

type verdict struct {
	Kind string // "accept" | "error" | "string" | "struct"
}

type rej struct {
	Code int    `json:"code"`
	Why  string `json:"why"`
}

func canon(v any) string {
	switch x := v.(type) {
	case error:
		return x.Error()
	case string:
		return x
	}
	b, _ := json.Marshal(v)
	var m any
	json.Unmarshal(b, &m)
	b, _ = json.Marshal(m)
	return string(b)
}

type world struct {
	srv      *rig.Server
	ts       *httptest.Server
	px       *proxy.Proxy
	mu       sync.Mutex
	socks    map[string]sio.ServerSocket
	order    []string
	disc     map[string]int
	late     int64
	gateOnly string        // when set, only this namespace is gated
	slowDisc time.Duration // disconnecting handlers of the other namespaces take this long
	gate     chan struct{} // when set, the first middleware of every namespace blocks on it
	inGate   chan string
	evChains map[string][]bool // per-namespace event middleware chain (true = accept)
}

func (w *world) url() string {
	if w.px != nil {
		return w.px.URL()
	}
	return w.srv.URL()
}

// newWorld creates the namespaces with their middleware chains. A final recorder middleware
// (always accepting) attaches the handlers, so that they exist before the CONNECT reply.
func newWorld(chains map[string][]verdict, cfg *sio.ServerConfig, gated bool, usePx bool, evChains map[string][]bool) (*world, map[string]int, map[string]string, error) {
	return newWorldG(chains, cfg, gated, "", 0, usePx, evChains)
}

func newWorldG(chains map[string][]verdict, cfg *sio.ServerConfig, gated bool, gateOnly string, slowDisc time.Duration, usePx bool, evChains map[string][]bool) (*world, map[string]int, map[string]string, error) {
	w := &world{socks: map[string]sio.ServerSocket{}, disc: map[string]int{}, evChains: evChains, gateOnly: gateOnly, slowDisc: slowDisc}
	if gated {
		w.gate = make(chan struct{})
		w.inGate = make(chan string, 16)
	}
	lens := map[string]int{}
	errmsg := map[string]string{}
	srv, err := rig.NewServer(cfg, func(io *sio.Server) {
		for nsp, chain := range chains {
			nsp, chain := nsp, chain
			n := io.Of(nsp)
			name := n.Name()
			lens[name] = len(chain) + 1
			if gated && (gateOnly == "" || gateOnly == name) {
				lens[name]++
				n.Use(func(s sio.ServerSocket, h *sio.Handshake) any {
					w.inGate <- name
					<-w.gate
					return nil
				})
			}
			for i, v := range chain {
				i, v := i, v
				var val any
				switch v.Kind {
				case "error":
					val = errors.New(fmt.Sprintf("denied-%s-%d", name, i))
				case "string":
					val = fmt.Sprintf("no-%s-%d", name, i)
				case "struct":
					val = &rej{Code: 400 + i, Why: "why-" + name}
				}
				if val != nil {
					if _, seen := errmsg[name]; !seen {
						errmsg[name] = canon(val)
					}
				}
				n.Use(func(s sio.ServerSocket, h *sio.Handshake) any { return val })
			}
			n.Use(func(s sio.ServerSocket, h *sio.Handshake) any {
				sid := string(s.ID())
				w.mu.Lock()
				w.socks[sid] = s
				w.order = append(w.order, sid)
				w.mu.Unlock()
				s.OnEvent("ev", func(tag string) {
					w.mu.Lock()
					gone := w.disc[sid] > 0
					w.mu.Unlock()
					if gone {
						atomic.AddInt64(&w.late, 1)
					}
					vtrace.Emit("h.event", "sid", sid, "nsp", name, "tag", tag)
				})
				s.OnEvent("ack", func(tag string, ack func(string)) {
					vtrace.Emit("h.event", "sid", sid, "nsp", name, "tag", tag)
					ack(tag)
				})
				s.OnDisconnecting(func(r sio.Reason) {
					vtrace.Emit("h.disconnecting", "sid", sid, "reason", string(r))
					if w.slowDisc > 0 {
						time.Sleep(w.slowDisc)
					}
				})
				s.OnDisconnect(func(r sio.Reason) {
					vtrace.Emit("h.disconnect", "sid", sid, "nsp", name, "reason", string(r))
					w.mu.Lock()
					w.disc[sid]++
					w.mu.Unlock()
				})
				if ch, ok := w.evChains[name]; ok {
					for i, acc := range ch {
						i, acc := i, acc
						s.Use(func(eventName string, v []any) error {
							// the middleware must be shown the event's name and its arguments
							tag, _ := firstString(v)
							nameOK := (tag == "t2" && eventName == "tevn") || (tag != "t2" && eventName == "tev")
							vtrace.Emit("h.evmw", "sid", sid, "tag", tagOr(tag, v), "i", i+1, "chain", len(ch), "nameOK", nameOK, "argsOK", len(v) >= 1, "reject", !acc)
							if !acc {
								return fmt.Errorf("event refused")
							}
							return nil
						})
					}
					nch := len(ch)
					s.OnEvent("tev", func(tag string, n int) {
						vtrace.Emit("h.evhandler", "sid", sid, "tag", tag, "chain", nch, "argsOK", n == 7)
					})
					s.OnEvent("tevn", func(n int, tag string) {
						vtrace.Emit("h.evhandler", "sid", sid, "tag", tag, "chain", nch, "argsOK", n == 7)
					})
					// a second handler for the same event: the gate holds for every handler of a rejected event
					s.OnceEvent("tev", func(tag string, n int) {
						vtrace.Emit("h.evhandler", "sid", sid, "tag", tag, "chain", nch, "argsOK", n == 7)
					})
				}
				return nil
			})
			n.OnConnection(func(s sio.ServerSocket) {
				vtrace.Emit("h.connection", "sid", string(s.ID()), "nsp", name)
				// room traffic before the end: "/" keeps one room and its own, the others leave every room they
				// were in - their own included - so that the end finds a socket without any membership
				s.Join("lx", "ly")
				s.Leave("ly")
				if name != "/" {
					s.Leave("lx")
					s.Leave(sio.Room(s.ID()))
				}
			})
		}
	})
	if err != nil {
		return nil, nil, nil, err
	}
	w.srv = srv
	if usePx {
		px, err := proxy.New(strings.TrimPrefix(srv.URL(), "http://"))
		if err != nil {
			return nil, nil, nil, err
		}
		w.px = px
	}
	return w, lens, errmsg, nil
}

func firstString(v []any) (string, bool) {
	for _, x := range v {
		if s, ok := x.(string); ok {
			return s, true
		}
	}
	return "", false
}
func tagOr(tag string, v []any) string {
	if tag != "" {
		return tag
	}
	return fmt.Sprint(v)
}

func (w *world) close() {
	if w.px != nil {
		w.px.Close()
	}
	w.srv.Close()
}

func (w *world) nsockets() (nsp, ad int) {
	for _, name := range []string{"/", "/a", "/ab", "/a/b", "/custom"} {
		n := w.srv.IO.Of(name)
		nsp += len(n.Sockets())
		ad += n.Adapter().Sockets(nil2()).Cardinality()
	}
	return
}

// adapterIndex: entries of the adapters' two indexes (room -> sockets, socket -> rooms), keys and memberships
func (w *world) adapterIndex() (n int) {
	for _, name := range []string{"/", "/a", "/ab", "/a/b", "/custom"} {
		r, s, m := adapter.VerifResidue(w.srv.IO.Of(name).Adapter())
		n += r + s + m
	}
	return
}

type env struct {
	res  *vres.Result
	w    *vtrace.Writer
	scen int
}

func (e *env) begin(cfg string, lens map[string]int, errmsg map[string]string, allowed []string, extra ...any) int {
	e.scen++
	kv := append([]any{"scenario", e.scen, "cfg", cfg, "chains", lens, "errmsg", errmsg, "allowed", allowed}, extra...)
	vtrace.Emit("reset", kv...)
	return e.scen
}
func (e *env) end() { e.w.Write(vtrace.Take()) }

// waitSettled: every socket the recorder saw has had its disconnect handler (or the deadline passes)
func (w *world) waitDisconnects(d time.Duration) {
	rig.WaitUntil(d, func() bool {
		w.mu.Lock()
		defer w.mu.Unlock()
		for _, sid := range w.order {
			if w.disc[sid] == 0 {
				return false
			}
		}
		return true
	})
}

func (e *env) quiesce(w *world, allclosed bool, eioSid string) {
	time.Sleep(40 * time.Millisecond)
	nsp, ad := w.nsockets()
	known := 0
	if eioSid != "" {
		resp, err := http.Get(w.srv.URL() + "/socket.io/?EIO=4&transport=polling&sid=" + eioSid)
		if err == nil {
			b, _ := io.ReadAll(resp.Body)
			resp.Body.Close()
			if !(resp.StatusCode == 400 && strings.Contains(string(b), `"code":1`)) {
				known = 1
			}
		}
	}
	vtrace.Emit("quiesce", "allclosed", allclosed, "nspSockets", nsp, "adapterSockets", ad, "adapterIndex", w.adapterIndex(), "eioKnown", known, "lateEvents", atomic.LoadInt64(&w.late))
}

var accept1 = map[string][]verdict{"/": {}, "/a": {}}

// registered: number of sockets the connection stores have registered (hook records of this scenario)
func registered() int {
	n := 0
	for _, r := range vtrace.Snapshot() {
		if r["ev"] == "connstore.set" {
			n++
		}
	}
	return n
}

// ---------------------------------------------------------------------------
// C06

type c06case struct {
	cause, phase string
	allowed      []string
}

func (e *env) c06(cs c06case, cut int64, cutUp bool) {
	vtrace.Take()
	vtrace.ResetIDs()
	cfg := &sio.ServerConfig{}
	if cs.cause == "ping-timeout" {
		cfg.EIO.PingInterval, cfg.EIO.PingTimeout = time.Second, time.Second
	}
	gated := cs.phase == "middleware" || cs.phase == "second-middleware"
	usePx := cs.cause == "tcp-cut" || cs.cause == "byte-cut"
	gateOnly, slow := "", time.Duration(0)
	if cs.phase == "second-middleware" {
		// "/" is connected (its disconnecting handler is slow); "/a" sits in its first middleware
		gateOnly, slow = "/a", 250*time.Millisecond
	}
	w, lens, errmsg, err := newWorldG(accept1, cfg, gated, gateOnly, slow, usePx, nil)
	if err != nil {
		e.res.Inconclusive("rig", err.Error(), e.scen)
		return
	}
	defer w.close()
	id := e.begin("c06-"+cs.cause+"-"+cs.phase, lens, errmsg, cs.allowed, "cut", cut, "cutUp", cutUp)
	if cs.cause == "byte-cut" {
		if cutUp {
			w.px.CutAfterUp(cut)
		} else {
			w.px.CutAfterDown(cut)
		}
	}
	eioSid := ""
	allclosed := true
	useRaw := cs.cause == "raw-close" || cs.cause == "garbage" || cs.cause == "unjoined-nsp" || cs.cause == "ping-timeout" || cs.cause == "second-connect"
	var m *sio.Manager
	var rc *raw.Client
	var socks []sio.ClientSocket
	tr := []string{"websocket"}
	if cs.phase == "upgrade" {
		tr = nil
	}
	connectedN := func() int { w.mu.Lock(); defer w.mu.Unlock(); return len(w.order) }
	if useRaw {
		rc, err = raw.Dial(w.url())
		if err != nil {
			e.res.Inconclusive("raw", err.Error(), id)
			e.end()
			return
		}
		eioSid = rc.SID
		if cs.phase != "before-connect" {
			rc.Send("40", "40/a,")
			if !gated {
				// (a second CONNECT racing the admission of the first is a different story: see DESIGN, observation O1)
				rig.WaitUntil(3*time.Second, func() bool { return connectedN() >= 2 && registered() >= 2 })
			}
		}
	} else {
		m = rig.NewManager(w.url(), tr, &sio.ManagerConfig{NoReconnection: true})
		if cs.phase != "before-connect" {
			for _, n := range []string{"/", "/a"} {
				s := m.Socket(n, nil)
				socks = append(socks, s)
				s.Connect()
			}
			if cs.phase == "second-middleware" {
				rig.WaitUntil(3*time.Second, func() bool { return connectedN() >= 1 && registered() >= 1 })
			} else if !gated && cs.cause != "byte-cut" {
				rig.WaitUntil(3*time.Second, func() bool { return connectedN() >= 2 })
				for _, s := range socks {
					s := s
					rig.WaitUntil(2*time.Second, func() bool { return s.Connected() })
				}
			} else if cs.cause == "byte-cut" {
				rig.WaitUntil(400*time.Millisecond, func() bool { return connectedN() >= 2 })
			}
		} else {
			m.Open()
			time.Sleep(50 * time.Millisecond)
		}
	}
	if gated {
		// the gated admissions are inside their first middleware
		ng := 2
		if gateOnly != "" {
			ng = 1
		}
		for i := 0; i < ng; i++ {
			select {
			case <-w.inGate:
			case <-time.After(3 * time.Second):
			}
		}
	}
	if cs.phase == "burst" || cs.cause == "byte-cut" {
		for i := 0; i < 6; i++ {
			for j, s := range socks {
				tag := fmt.Sprintf("b%d-%d", i, j)
				vtrace.Emit("client.emit", "nsp", []string{"/", "/a"}[j], "tag", tag)
				s.Emit("ev", tag)
			}
		}
	}
	if cs.phase == "upgrade" {
		time.Sleep(15 * time.Millisecond) // the probe is on its way
	}
	// the cause
	switch cs.cause {
	case "client-close":
		m.Close()
	case "raw-close":
		rc.Close()
	case "server-disconnect-close":
		if ss := w.first(); ss != nil {
			ss.Disconnect(true)
		} else if !gated {
			e.res.Inconclusive("c06", "no server socket", id)
		}
	case "nsp-disconnect":
		if ss := w.first(); ss != nil {
			ss.Disconnect(false)
		}
		allclosed = false
	case "client-nsp-disconnect":
		socks[0].Disconnect()
		allclosed = false
	case "garbage":
		rc.Send("4x-not-a-packet")
	case "unjoined-nsp":
		rc.Send(`42/zzz,["ev","t"]`)
	case "second-connect":
		rc.Send("40")
	case "ping-timeout":
		rc.Abandon()
		time.Sleep(2300 * time.Millisecond)
	case "server-close":
		go w.srv.IO.Close()
	case "tcp-cut":
		w.px.CutAll()
	case "byte-cut":
		time.Sleep(60 * time.Millisecond)
		w.px.CutAll() // whatever survived the cut point is cut now
	}
	if gated {
		time.Sleep(60 * time.Millisecond)
		close(w.gate) // the middlewares return after the connection ended (second-middleware: while "/" is still being closed)
		time.Sleep(60 * time.Millisecond)
	}
	if allclosed {
		w.waitDisconnects(4 * time.Second)
		if m != nil {
			m.Close()
		}
		e.quiesce(w, true, eioSid)
	} else {
		// one namespace left: the other must stay connected
		time.Sleep(80 * time.Millisecond)
		w.mu.Lock()
		var gone, alive []string
		for _, sid := range w.order {
			if w.disc[sid] > 0 {
				gone = append(gone, sid)
			} else {
				alive = append(alive, sid)
			}
		}
		w.mu.Unlock()
		vtrace.Emit("residue", "gone", gone, "alive", alive)
		if len(gone) != 1 || len(alive) != 1 {
			e.res.Violation("c06-nsp-disconnect-scope", fmt.Sprintf("after a single-namespace disconnect: gone=%v alive=%v", gone, alive), id, cs)
		}
		// then end the rest and check the residue
		if m != nil {
			m.Close()
		}
		w.waitDisconnects(4 * time.Second)
		e.quiesce(w, true, eioSid)
	}
	e.end()
	e.res.Case(fmt.Sprint(cs.cause, cs.phase, cut, cutUp), true)
}

func (w *world) first() sio.ServerSocket {
	w.mu.Lock()
	defer w.mu.Unlock()
	if len(w.order) == 0 {
		return nil
	}
	return w.socks[w.order[0]]
}

var anyReason = []string{"transport close", "transport error", "forced close", "forced server close", "ping timeout", "parse error",
	"server shutting down", "server namespace disconnect", "client namespace disconnect"}

func runC06(e *env) {
	cases := []c06case{
		{"client-close", "idle", []string{"transport close", "forced close", "transport error"}},
		{"client-close", "burst", []string{"transport close", "forced close", "transport error"}},
		{"client-close", "middleware", []string{"transport close", "forced close", "transport error", "forced server close"}},
		{"client-close", "before-connect", anyReason},
		{"client-close", "upgrade", []string{"transport close", "forced close", "transport error"}},
		{"raw-close", "idle", []string{"transport close"}},
		{"server-disconnect-close", "idle", []string{"server namespace disconnect", "forced close", "forced server close"}},
		{"server-disconnect-close", "burst", []string{"server namespace disconnect", "forced close", "forced server close"}},
		{"nsp-disconnect", "idle", anyReason},
		{"client-nsp-disconnect", "idle", anyReason},
		{"garbage", "idle", []string{"forced close", "forced server close", "parse error", "transport error", "transport close"}},
		{"unjoined-nsp", "idle", []string{"forced close", "forced server close"}},
		{"second-connect", "idle", []string{"forced close", "forced server close"}},
		{"server-close", "idle", []string{"server shutting down", "forced close", "forced server close", "transport close"}},
		{"server-close", "burst", []string{"server shutting down", "forced close", "forced server close", "transport close"}},
		{"server-close", "middleware", anyReason},
		{"tcp-cut", "idle", []string{"transport close", "transport error"}},
		{"tcp-cut", "burst", []string{"transport close", "transport error"}},
		{"tcp-cut", "middleware", []string{"transport close", "transport error", "forced server close"}},
		{"tcp-cut", "second-middleware", []string{"transport close", "transport error", "forced server close"}},
		{"client-close", "second-middleware", []string{"transport close", "forced close", "transport error", "forced server close"}},
		{"server-close", "second-middleware", anyReason},
		{"ping-timeout", "idle", []string{"ping timeout"}},
	}
	for _, c := range cases {
		e.c06(c, 0, false)
	}
	// the TCP stream cut at every k-th byte of a scripted session (websocket; both directions)
	step := int64(vres.Pick(37, 5))
	for k := int64(1); k < 1500; k += step {
		e.c06(c06case{"byte-cut", "script", []string{"transport close", "transport error", "forced close"}}, k, true)
		if k < 900 {
			e.c06(c06case{"byte-cut", "script", []string{"transport close", "transport error", "forced close"}}, k, false)
		}
	}
}

// ---------------------------------------------------------------------------
// C12

func allChains(maxLen int) [][]verdict {
	kinds := []string{"accept", "error", "string", "struct"}
	out := [][]verdict{{}}
	prev := [][]verdict{{}}
	for l := 1; l <= maxLen; l++ {
		var cur [][]verdict
		for _, p := range prev {
			for _, k := range kinds {
				cur = append(cur, append(append([]verdict{}, p...), verdict{k}))
			}
		}
		out = append(out, cur...)
		prev = cur
	}
	return out
}

func (e *env) c12chain(chain []verdict, nsp string, nclients int) {
	vtrace.Take()
	vtrace.ResetIDs()
	w, lens, errmsg, err := newWorld(map[string][]verdict{nsp: chain, "/other": {}}, nil, false, false, nil)
	if err != nil {
		e.res.Inconclusive("rig", err.Error(), e.scen)
		return
	}
	defer w.close()
	id := e.begin("c12-chain", lens, errmsg, nil, "chain", fmt.Sprint(chain), "nsp", nsp)
	var wg sync.WaitGroup
	var ms []*sio.Manager
	for i := 0; i < nclients; i++ {
		m := rig.NewManager(w.url(), []string{"websocket"}, &sio.ManagerConfig{NoReconnection: true})
		ms = append(ms, m)
		s := m.Socket(nsp, nil)
		done := make(chan struct{})
		var once sync.Once
		name := w.srv.IO.Of(nsp).Name()
		s.OnConnect(func() {
			vtrace.Emit("client.connect", "nsp", name, "sid", string(s.ID()))
			once.Do(func() { close(done) })
		})
		s.OnConnectError(func(err any) {
			vtrace.Emit("client.connect_error", "nsp", name, "msg", canon(err))
			once.Do(func() { close(done) })
		})
		wg.Add(1)
		go func() {
			defer wg.Done()
			s.Connect()
			select {
			case <-done:
			case <-time.After(4 * time.Second):
				e.res.Inconclusive("c12", "client saw neither connect nor connect_error", id)
			}
		}()
	}
	wg.Wait()
	time.Sleep(20 * time.Millisecond)
	for _, m := range ms {
		m.Close()
	}
	w.waitDisconnects(3 * time.Second)
	e.quiesce(w, true, "")
	e.end()
	e.res.Case(fmt.Sprint(chain, nsp), len(chain) > 0)
}

// the connection ends while an early middleware runs: the rest of the chain still decides
func (e *env) c12closeDuringChain(chain []verdict) {
	vtrace.Take()
	vtrace.ResetIDs()
	w, lens, errmsg, err := newWorldG(map[string][]verdict{"/": chain}, nil, true, "", 0, false, nil)
	if err != nil {
		e.res.Inconclusive("rig", err.Error(), e.scen)
		return
	}
	defer w.close()
	id := e.begin("c12-close-during-chain", lens, errmsg, nil, "chain", fmt.Sprint(chain))
	m := rig.NewManager(w.url(), []string{"websocket"}, &sio.ManagerConfig{NoReconnection: true})
	s := m.Socket("/", nil)
	s.Connect()
	select {
	case <-w.inGate:
	case <-time.After(3 * time.Second):
		e.res.Inconclusive("c12", "admission never reached the first middleware", id)
	}
	m.Close() // the connection ends while the first middleware is still running
	time.Sleep(80 * time.Millisecond)
	close(w.gate)
	time.Sleep(120 * time.Millisecond)
	w.waitDisconnects(2 * time.Second)
	e.quiesce(w, true, "")
	e.end()
	e.res.Case(fmt.Sprint("close-during-chain", chain), true)
}

// event middlewares: chains over {accept, reject} x event signatures
func (e *env) c12events(ch []bool) {
	vtrace.Take()
	vtrace.ResetIDs()
	w, lens, errmsg, err := newWorld(map[string][]verdict{"/": {}}, nil, false, false, map[string][]bool{"/": ch})
	if err != nil {
		e.res.Inconclusive("rig", err.Error(), e.scen)
		return
	}
	defer w.close()
	id := e.begin("c12-events", lens, errmsg, nil, "evchain", fmt.Sprint(ch))
	m := rig.NewManager(w.url(), []string{"websocket"}, &sio.ManagerConfig{NoReconnection: true})
	s, ok := rig.ConnectSocket(m, "/", nil, 4*time.Second)
	if !ok {
		e.res.Inconclusive("c12", "no connect", id)
		e.end()
		return
	}
	// first argument a string / not a string
	s.Emit("tev", "t1", 7)
	s.Emit("tevn", 7, "t2")
	s.Emit("tev", "t3", 7, func() {})
	time.Sleep(120 * time.Millisecond)
	accepted := true
	for _, a := range ch {
		accepted = accepted && a
	}
	recs := vtrace.Snapshot()
	handlers, mws := 0, 0
	for _, r := range recs {
		switch r["ev"] {
		case "h.evhandler":
			handlers++
		case "h.evmw":
			mws++
		}
	}
	want := 0
	if accepted {
		want = 4 // t1 reaches two handlers (on + once), t2 and t3 one each
	}
	if handlers != want {
		e.res.Violation("c12-event-gate", fmt.Sprintf("event middleware chain %v: %d handler entries for 3 events (expected %d); %d middleware calls", ch, handlers, want, mws), id, ch)
	}
	m.Close()
	w.waitDisconnects(3 * time.Second)
	e.quiesce(w, true, "")
	e.end()
	e.res.Case(fmt.Sprint("events", ch), len(ch) > 0)
}

func runC12(e *env) {
	chains := allChains(vres.Pick(3, 5))
	for i, ch := range chains {
		nsp := "/"
		if i%2 == 1 {
			nsp = "/custom"
		}
		n := 2
		if i%7 == 0 {
			n = 4
		}
		e.c12chain(ch, nsp, n)
	}
	for _, ch := range [][]bool{{}, {true}, {false}, {true, true}, {true, false}, {false, true}} {
		e.c12events(ch)
	}
	for _, ch := range [][]verdict{{{"accept"}, {"error"}}, {{"accept"}, {"accept"}, {"string"}}, {{"struct"}}, {{"accept"}, {"accept"}}} {
		e.c12closeDuringChain(ch)
	}
}

// ---------------------------------------------------------------------------
// C05

func (e *env) c05multiplex(rng *rand.Rand, nsps []string) {
	vtrace.Take()
	vtrace.ResetIDs()
	chains := map[string][]verdict{}
	for _, n := range nsps {
		chains[n] = []verdict{}
	}
	w, lens, errmsg, err := newWorld(chains, nil, false, false, nil)
	if err != nil {
		e.res.Inconclusive("rig", err.Error(), e.scen)
		return
	}
	defer w.close()
	id := e.begin("c05-multiplex", lens, errmsg, nil, "nsps", fmt.Sprint(nsps))
	m := rig.NewManager(w.url(), []string{"websocket"}, &sio.ManagerConfig{NoReconnection: true})
	socks := map[string]sio.ClientSocket{}
	var cmu sync.Mutex
	got := map[string][]string{} // nsp -> tags of server broadcasts received
	for _, n := range nsps {
		n := n
		s := m.Socket(n, nil)
		socks[n] = s
		s.OnEvent("bc", func(tag string) {
			cmu.Lock()
			got[n] = append(got[n], tag)
			cmu.Unlock()
		})
		s.Connect()
	}
	for _, n := range nsps {
		s := socks[n]
		if !rig.WaitUntil(4*time.Second, func() bool { return s.Connected() }) {
			e.res.Inconclusive("c05", "namespace "+n+" did not connect", id)
			m.Close()
			e.end()
			return
		}
	}
	name := func(n string) string { return w.srv.IO.Of(n).Name() }
	sent := map[string][]string{}
	var acks int64
	// interleaved emits, acks and broadcasts across the namespaces
	for i := 0; i < 24; i++ {
		n := nsps[rng.Intn(len(nsps))]
		tag := fmt.Sprintf("%s#%d", name(n), i)
		switch rng.Intn(3) {
		case 0:
			vtrace.Emit("client.emit", "nsp", name(n), "tag", tag)
			socks[n].Emit("ev", tag)
		case 1:
			vtrace.Emit("client.emit", "nsp", name(n), "tag", tag)
			socks[n].Emit("ack", tag, func(r string) {
				if r == tag {
					atomic.AddInt64(&acks, 1)
				} else {
					e.res.Violation("c05-ack-crossed", fmt.Sprintf("ack for %q carried %q", tag, r), id, nil)
				}
			})
		case 2:
			sent[n] = append(sent[n], tag)
			w.srv.IO.Of(n).Emit("bc", tag)
		}
	}
	time.Sleep(150 * time.Millisecond)
	cmu.Lock()
	for _, n := range nsps {
		a, b := append([]string{}, sent[n]...), append([]string{}, got[n]...)
		sort.Strings(a)
		sort.Strings(b)
		if fmt.Sprint(a) != fmt.Sprint(b) {
			e.res.Violation("c05-broadcast-crossed", fmt.Sprintf("namespace %s: broadcast %v, its client socket received %v", n, a, b), id, nsps)
		}
	}
	cmu.Unlock()
	// disconnecting one namespace leaves the others connected
	victim := nsps[rng.Intn(len(nsps))]
	socks[victim].Disconnect()
	// (the server needs its time on a loaded machine: wait for the first disconnect, then a little for any others)
	rig.WaitUntil(3*time.Second, func() bool {
		w.mu.Lock()
		defer w.mu.Unlock()
		for _, sid := range w.order {
			if w.disc[sid] > 0 {
				return true
			}
		}
		return false
	})
	time.Sleep(80 * time.Millisecond)
	w.mu.Lock()
	var gone, alive []string
	for _, sid := range w.order {
		if w.disc[sid] > 0 {
			gone = append(gone, sid)
		} else {
			alive = append(alive, sid)
		}
	}
	w.mu.Unlock()
	vtrace.Emit("residue", "gone", gone, "alive", alive)
	if len(gone) != 1 || len(alive) != len(nsps)-1 {
		e.res.Violation("c05-disconnect-scope", fmt.Sprintf("disconnecting %s: gone=%d alive=%d of %d", victim, len(gone), len(alive), len(nsps)), id, nsps)
	}
	emitOthers := func() {
		for _, n := range nsps {
			if n != victim {
				tag := fmt.Sprintf("%s#after", name(n))
				vtrace.Emit("client.emit", "nsp", name(n), "tag", tag)
				socks[n].Emit("ev", tag)
			}
		}
		time.Sleep(60 * time.Millisecond)
	}
	// joining the namespace again on the shared connection must work and must not disturb the others
	rejoinNow := func() {
		before := len(w.order)
		socks[victim].Connect()
		ok := rig.WaitUntil(3*time.Second, func() bool { w.mu.Lock(); defer w.mu.Unlock(); return len(w.order) > before }) &&
			rig.WaitUntil(2*time.Second, func() bool { return socks[victim].Connected() })
		if !ok {
			e.res.Violation("c05-rejoin", fmt.Sprintf("joining %s again on the shared connection failed", victim), id, nsps)
		}
		for _, n := range nsps {
			if !socks[n].Connected() {
				e.res.Violation("c05-rejoin-disturbed", fmt.Sprintf("after rejoining %s, namespace %s is no longer connected", victim, n), id, nsps)
			}
			tag := fmt.Sprintf("%s#rejoined", name(n))
			vtrace.Emit("client.emit", "nsp", name(n), "tag", tag)
			socks[n].Emit("ev", tag)
		}
		time.Sleep(80 * time.Millisecond)
	}
	// the next packet of the connection after the disconnect is either for the same namespace (rejoin first)
	// or for another one
	if e.scen%2 == 0 {
		rejoinNow()
		emitOthers()
	} else {
		emitOthers()
		rejoinNow()
	}
	m.Close()
	w.waitDisconnects(3 * time.Second)
	e.quiesce(w, true, "")
	e.end()
	e.res.Case(fmt.Sprint("multiplex", nsps, victim), true)
}

// packets addressed to a namespace the connection has not joined close it instead of being dispatched
func (e *env) c05unjoined(pkt string) {
	vtrace.Take()
	vtrace.ResetIDs()
	w, lens, errmsg, err := newWorld(map[string][]verdict{"/": {}, "/a": {}, "/ab": {}}, nil, false, false, nil)
	if err != nil {
		e.res.Inconclusive("rig", err.Error(), e.scen)
		return
	}
	defer w.close()
	id := e.begin("c05-unjoined", lens, errmsg, []string{"forced close", "forced server close"}, "pkt", pkt)
	rc, err := raw.Dial(w.url())
	if err != nil {
		e.res.Inconclusive("raw", err.Error(), id)
		e.end()
		return
	}
	rc.Send("40/a,")
	rc.WaitFor(3*time.Second, func(ps []string) bool { return len(ps) > 0 })
	rc.Send(pkt) // for a namespace this connection never joined (look-alike names included)
	closed := rig.WaitUntil(3*time.Second, func() bool { return rc.Closed() })
	w.waitDisconnects(3 * time.Second)
	if !closed {
		// the poll loop may simply have been cut; what counts is that the session is gone
	}
	e.quiesce(w, true, rc.SID)
	e.end()
	e.res.Case("unjoined "+pkt, true)
}

func runC05(e *env) {
	rng := rand.New(rand.NewSource(vres.Seed()))
	sets := [][]string{{"/", "/a"}, {"/a", "/ab", "/a/b"}, {"", "/a"}, {"/", "/a", "/ab", "/a/b"}}
	for i := 0; i < vres.Pick(8, 80); i++ {
		e.c05multiplex(rng, sets[i%len(sets)])
	}
	for _, p := range []string{`42["ev","x"]`, `42/ab,["ev","x"]`, `42/a/b,["ev","x"]`, `42/,["ev","x"]`, `43/ab,1["x"]`, `41/ab,`,
		// names that a path normalisation would fold onto the joined "/a"
		`42/a/,["ev","x"]`, `42//a,["ev","x"]`, `42/a/.,["ev","x"]`, `42/b/../a,["ev","x"]`, `43/a/,1["x"]`, `42/A,["ev","x"]`, `42/a ,["ev","x"]`} {
		e.c05unjoined(p)
	}
}

func run(t *testing.T, which string) {
	out := vres.OutDir()
	res := vres.New()
	res.Rule = map[string]string{
		"C05": "one case = one multiplexed session over a set of namespaces (prefix look-alikes, '' vs '/') with seeded interleavings of emit / ack / broadcast / disconnect, or one packet for an unjoined namespace",
		"C06": "one case = one termination cause x phase (idle, burst, inside a middleware, before CONNECT, during the upgrade), or the websocket stream cut after byte k (quick: every 37th byte, thorough: every 5th), each on a fresh real server; all distinct",
		"C12": "one case = one chain of 0..3 (thorough 0..5) middlewares over {accept, reject-error, reject-string, reject-struct} with 2-4 clients connecting concurrently, or one event-middleware chain x 3 event signatures; non-trivial when the chain is not empty",
	}[which]
	vtrace.Install()
	defer vtrace.Uninstall()
	vtrace.SetFilter(keep)
	w, err := vtrace.NewWriter(filepath.Join(out, "trace.ndjson"))
	if err != nil {
		t.Fatal(err)
	}
	e := &env{res: res, w: w}
	switch which {
	case "C05":
		runC05(e)
	case "C06":
		runC06(e)
	case "C12":
		runC12(e)
	}
	res.Scenarios = e.scen
	w.Close()
	if err := res.Write(out, "result.json"); err != nil {
		t.Fatal(err)
	}
}

func TestC05(t *testing.T) { run(t, "C05") }
func TestC06(t *testing.T) { run(t, "C06") }
func TestC12(t *testing.T) { run(t, "C12") }

var _ = eio.ReasonForcedClose
