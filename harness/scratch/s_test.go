//go:build verif

package scratch

import (
	"fmt"
	"sync/atomic"
	"testing"
	"time"

	sio "github.com/karagenc/socket.io-go"
	"verif/harness/proxy"
	"verif/harness/rig"
)

func TestPending(t *testing.T) {
	var got int64
	srv, err := rig.NewServer(nil, func(io *sio.Server) {
		io.Of("/").Use(func(s sio.ServerSocket, h *sio.Handshake) any {
			s.OnEvent("x", func(n int) { fmt.Println("server got x", n); atomic.AddInt64(&got, 1) })
			time.Sleep(100 * time.Millisecond)
			return nil
		})
	})
	if err != nil {
		t.Fatal(err)
	}
	defer srv.Close()
	px, _ := proxy.New(srv.TS.Listener.Addr().String())
	defer px.Close()
	d, mx := 20*time.Millisecond, 80*time.Millisecond
	var j float32 = 0
	m := rig.NewManager(px.URL(), []string{"websocket"}, &sio.ManagerConfig{ReconnectionDelay: &d, ReconnectionDelayMax: &mx, RandomizationFactor: &j})
	s := m.Socket("/", nil)
	s.OnConnect(func() { fmt.Println("client connect", time.Now().Format("05.000")) })
	s.OnDisconnect(func(r sio.Reason) { fmt.Println("client disconnect", r) })
	m.OnError(func(err error) { fmt.Println("mgr error", err) })
	m.OnReconnectAttempt(func(n uint32) { fmt.Println("attempt", n) })
	s.Emit("x", 1) // before Connect: buffered
	s.Connect()
	rig.WaitUntil(2*time.Second, func() bool { st, _ := sio.VerifClientSocketState(s); return st == 1 })
	st, nb := sio.VerifClientSocketState(s)
	fmt.Println("state", st, "buffered", nb)
	s.Emit("x", 2) // while pending
	time.Sleep(600 * time.Millisecond)
	s.Emit("x", 3)
	time.Sleep(300 * time.Millisecond)
	fmt.Println("server got", atomic.LoadInt64(&got), "connected", s.Connected())
}
