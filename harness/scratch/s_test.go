//go:build verif

package scratch

import (
	"fmt"
	"reflect"
	"runtime/debug"
	"testing"

	sio "github.com/karagenc/socket.io-go"
	jsonparser "github.com/karagenc/socket.io-go/parser/json"
	"github.com/karagenc/socket.io-go/parser"
	"github.com/karagenc/socket.io-go/parser/json/serializer/stdjson"
)

func TestX(t *testing.T) {
	types := []reflect.Type{reflect.TypeOf(&[]any{}), reflect.TypeOf(&[]map[string]any{}), reflect.TypeOf(&map[string]map[string]any{}), reflect.TypeOf(&map[string][]any{}), reflect.TypeOf(&map[string]sio.Binary{}), reflect.TypeOf(&[]sio.Binary{}), reflect.TypeOf(&map[string]any{}), reflect.TypeOf((*any)(nil))}
	bodies := []string{`51-["ev",{"m":{"_placeholder":true,"num":0}}]`, `51-["ev",{"m":{"x":{"_placeholder":true,"num":0}}}]`, `51-["ev",[{"_placeholder":true,"num":0}]]`, `51-["ev",{"num":null,"_placeholder":true}]`, `51-["ev",{"m":[{"q":{"_placeholder":true,"num":0}}]}]`}
	for _, b := range bodies {
		for _, ty := range types {
			p := jsonparser.NewCreator(0, stdjson.New())()
			var dec parser.Decode
			p.Add([]byte(b), func(h *parser.PacketHeader, n string, d parser.Decode) { dec = d })
			p.Add([]byte("BIN"), func(h *parser.PacketHeader, n string, d parser.Decode) { dec = d })
			func() {
				defer func() {
					if x := recover(); x != nil {
						fmt.Printf("PANIC %s into %v: %v\n", b, ty, x)
						_ = debug.Stack
					}
				}()
				vs, err := dec(ty)
				if err == nil && len(vs) > 0 {
					fmt.Printf("ok    %s into %v: %v\n", b, ty, vs[0].Elem().Interface())
				} else {
					fmt.Printf("err   %s into %v: %v\n", b, ty, err)
				}
			}()
		}
	}
}
