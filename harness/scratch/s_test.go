//go:build verif

package scratch

import (
	"fmt"
	"strings"
	"sync/atomic"
	"testing"
	"time"

	sio "github.com/karagenc/socket.io-go"
	"verif/harness/proxy"
	"verif/harness/rig"
)

func TestRetry(t *testing.T) {
	var got int64
	var slow int32 = 1
	srv, err := rig.NewServer(nil, func(io *sio.Server) {
		io.Of("/").Use(func(s sio.ServerSocket, h *sio.Handshake) any {
			s.OnEvent("x", func(n int, ack func(string)) {
				fmt.Println("server got x", n)
				atomic.AddInt64(&got, 1)
				if atomic.LoadInt32(&slow) == 1 {
					time.Sleep(150 * time.Millisecond) // the first try's ack is lost with the connection
				}
				ack("ok")
			})
			return nil
		})
	})
	if err != nil {
		t.Fatal(err)
	}
	defer srv.Close()
	px, _ := proxy.New(strings.TrimPrefix(srv.URL(), "http://"))
	defer px.Close()
	d, mx := 10*time.Millisecond, 20*time.Millisecond
	var j float32 = 0
	m := rig.NewManager(px.URL(), []string{"websocket"}, &sio.ManagerConfig{ReconnectionDelay: &d, ReconnectionDelayMax: &mx, RandomizationFactor: &j})
	s := m.Socket("/", &sio.ClientSocketConfig{Retries: 1, AckTimeout: 300 * time.Millisecond})
	t0 := time.Now()
	s.OnConnect(func() { fmt.Println(time.Since(t0).Milliseconds(), "connect") })
	s.OnDisconnect(func(r sio.Reason) { fmt.Println(time.Since(t0).Milliseconds(), "disconnect", r) })
	m.OnError(func(err error) { fmt.Println(time.Since(t0).Milliseconds(), "mgr error", err) })
	s.Connect()
	rig.WaitUntil(2*time.Second, func() bool { return s.Connected() })
	s.Emit("x", 1, func(err error, r string) { fmt.Println(time.Since(t0).Milliseconds(), "user ack 1", err, r) })
	time.Sleep(50 * time.Millisecond)
	px.CutAll() // the ack of try 1 is lost; the client reconnects and re-sends (try 2)
	atomic.StoreInt32(&slow, 0)
	time.Sleep(1500 * time.Millisecond)
	s.Emit("x", 2, func(err error, r string) { fmt.Println(time.Since(t0).Milliseconds(), "user ack 2", err, r) })
	time.Sleep(800 * time.Millisecond)
	fmt.Println("server got", atomic.LoadInt64(&got))
}
