//go:build verif

package scratch

import (
	"fmt"
	"testing"
	"time"

	sio "github.com/karagenc/socket.io-go"
	"verif/harness/gates"
	"verif/harness/proxy"
	"verif/harness/rig"
)

func mk(t *testing.T, transports []string) (*rig.Server, *proxy.Proxy, *sio.Manager, sio.ClientSocket) {
	srv, err := rig.NewServer(nil, func(io *sio.Server) {
		io.Of("/").Use(func(s sio.ServerSocket, h *sio.Handshake) any {
			s.OnEvent("x", func(n int) { fmt.Println("server got x", n) })
			return nil
		})
	})
	if err != nil {
		t.Fatal(err)
	}
	px, _ := proxy.New(srv.TS.Listener.Addr().String())
	d, mx := 20*time.Millisecond, 80*time.Millisecond
	var j float32 = 0
	m := rig.NewManager(px.URL(), transports, &sio.ManagerConfig{ReconnectionDelay: &d, ReconnectionDelayMax: &mx, RandomizationFactor: &j})
	s := m.Socket("/", nil)
	t0 := time.Now()
	s.OnConnect(func() { fmt.Println(time.Since(t0).Milliseconds(), "client connect") })
	s.OnDisconnect(func(r sio.Reason) { fmt.Println(time.Since(t0).Milliseconds(), "client disconnect", r) })
	m.OnError(func(err error) { fmt.Println(time.Since(t0).Milliseconds(), "mgr error", err) })
	m.OnClose(func(r sio.Reason, err error) { fmt.Println(time.Since(t0).Milliseconds(), "mgr close", r) })
	m.OnReconnectAttempt(func(n uint32) { fmt.Println(time.Since(t0).Milliseconds(), "attempt", n) })
	m.OnReconnect(func(n uint32) { fmt.Println(time.Since(t0).Milliseconds(), "reconnected", n) })
	return srv, px, m, s
}

func TestEarlyClose(t *testing.T) {
	srv, px, m, s := mk(t, []string{"websocket"})
	defer srv.Close()
	defer px.Close()
	ctl := gates.New()
	ctl.HoldIf(func(pt string, k any) bool { return pt == "mgr.connect.dialed" })
	ctl.Install()
	defer gates.Uninstall()
	s.Connect()
	w := ctl.WaitFor(func(w *gates.Waiter) bool { return true }, 2*time.Second)
	fmt.Println("held:", w != nil)
	px.CutAll() // the connection dies between Dial returning and the state write
	time.Sleep(300 * time.Millisecond)
	st, at, sk := sio.VerifManagerState(m)
	fmt.Println("before release: state", st, at, sk)
	ctl.HoldIf(func(pt string, k any) bool { return false })
	ctl.OpenAll()
	time.Sleep(1500 * time.Millisecond)
	st, at, sk = sio.VerifManagerState(m)
	ss, nb := sio.VerifClientSocketState(s)
	fmt.Println("after: mgr state", st, at, sk, "socket", ss, nb, "connected", s.Connected())
}

func TestHole(t *testing.T) {
	srv, px, m, s := mk(t, []string{"websocket"})
	defer srv.Close()
	defer px.Close()
	s.Connect()
	time.Sleep(200 * time.Millisecond)
	px.Blackhole(1)
	px.CutAll() // existing connection dies; new dials are swallowed
	time.Sleep(500 * time.Millisecond)
	px.Blackhole(0)
	fmt.Println("hole lifted")
	time.Sleep(3 * time.Second)
	st, at, sk := sio.VerifManagerState(m)
	fmt.Println("after: mgr state", st, at, sk, "connected", s.Connected())
}
