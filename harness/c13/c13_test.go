//go:build verif

// Driver for C13: (V) the client's write batching enumerated through the
// exported wrapper; the size-limit table on a real Engine.IO server over
// polling (Content-Length / chunked) and websocket, both directions.
package c13

import (
	"context"
	"fmt"
	"io"
	"math/rand"
	"net/http"
	"net/http/httptest"
	"path/filepath"
	"strings"
	"sync"
	"sync/atomic"
	"testing"
	"time"

	eio "github.com/karagenc/socket.io-go/engine.io"
	"github.com/karagenc/socket.io-go/engine.io/parser"
	"nhooyr.io/websocket"

	"verif/harness/vres"
	"verif/harness/vtrace"
)

func pkt(dataLen int, binary bool) *parser.Packet {
	d := make([]byte, dataLen)
	for i := range d {
		d[i] = 'a'
	}
	p, _ := parser.NewPacket(parser.PacketTypeMessage, binary, d)
	return p
}

func encLens(ps []*parser.Packet) []int {
	out := make([]int, len(ps))
	for i, p := range ps {
		out[i] = p.EncodedLen(false)
	}
	return out
}

func batchRecord(w *vtrace.Writer, res *vres.Result, max int64, tr string, ps []*parser.Packet) {
	in := encLens(ps)
	var out [][]int
	func() {
		defer func() {
			if x := recover(); x != nil {
				out = [][]int{{-1}}
			}
		}()
		out = [][]int{}
		for _, b := range eio.VerifBatch(max, tr, ps) {
			out = append(out, encLens(b))
		}
	}()
	rec := vtrace.Rec{"ev": "batch", "enc": in, "max": max, "polling": tr == "polling", "out": out}
	w.Write([]vtrace.Rec{rec})
	res.Case(fmt.Sprint(in, max, tr), len(ps) > 1 && tr == "polling" && max > 0)
	if w.Lines()%20000 == 7 {
		res.Sample(rec)
	}
}

func enumBatches(w *vtrace.Writer, res *vres.Result, maxLen int) {
	sizes := []int{0, 1, 2, 3, 5, 8}
	var rec func(cur []int)
	rec = func(cur []int) {
		if len(cur) > 0 {
			ps := make([]*parser.Packet, len(cur))
			for i, s := range cur {
				ps[i] = pkt(s, false)
			}
			for max := int64(1); max <= 20; max++ {
				batchRecord(w, res, max, "polling", ps)
			}
		}
		if len(cur) == maxLen {
			return
		}
		for _, s := range sizes {
			rec(append(append([]int{}, cur...), s))
		}
	}
	rec(nil)
}

// ---------------------------------------------------------------------------

type srvObs struct {
	mu       sync.Mutex
	got      []int // data sizes of delivered messages
	closed   bool
	reason   string
	closedCh chan struct{}
}

func newEIOServer(cfg *eio.ServerConfig) (*eio.Server, *httptest.Server, *srvObs, chan eio.ServerSocket) {
	obs := &srvObs{closedCh: make(chan struct{})}
	socks := make(chan eio.ServerSocket, 4)
	if cfg.WebSocketAcceptOptions == nil {
		cfg.WebSocketAcceptOptions = &websocket.AcceptOptions{CompressionMode: websocket.CompressionDisabled}
	}
	var srv *eio.Server
	srv = eio.NewServer(func(s eio.ServerSocket) *eio.Callbacks {
		socks <- s
		return &eio.Callbacks{
			OnPacket: func(ps ...*parser.Packet) {
				obs.mu.Lock()
				for _, p := range ps {
					if p.Type == parser.PacketTypeMessage {
						obs.got = append(obs.got, len(p.Data))
					}
				}
				obs.mu.Unlock()
			},
			OnClose: func(reason eio.Reason, err error) {
				obs.mu.Lock()
				if !obs.closed {
					obs.closed = true
					obs.reason = string(reason)
					close(obs.closedCh)
				}
				obs.mu.Unlock()
			},
		}
	}, cfg)
	if err := srv.Run(); err != nil {
		panic(err)
	}
	ts := httptest.NewServer(srv)
	return srv, ts, obs, socks
}

type countingReader struct {
	n, total int64
	read     int64
	prefix   string // first bytes of the body (default "4": a message packet)
}

func (c *countingReader) Read(p []byte) (int, error) {
	if c.n >= c.total {
		return 0, io.EOF
	}
	k := int64(len(p))
	if k > c.total-c.n {
		k = c.total - c.n
	}
	for i := int64(0); i < k; i++ {
		p[i] = 'a'
	}
	pre := c.prefix
	if pre == "" {
		pre = "4"
	}
	for i := int64(0); i < k; i++ {
		if c.n+i < int64(len(pre)) {
			p[i] = pre[c.n+i]
		}
	}
	c.n += k
	atomic.AddInt64(&c.read, k)
	return int(k), nil
}

// inbound: one message of `size` data bytes to a fresh session
func inbound(w *vtrace.Writer, res *vres.Result, limitName string, cfg eio.ServerConfig, effLimit int64, tr string, size int64) {
	cfg.PingInterval, cfg.PingTimeout = 5*time.Second, 5*time.Second
	srv, ts, obs, _ := newEIOServer(&cfg)
	defer func() { srv.Close(); ts.CloseClientConnections(); ts.Close() }()
	consumed := int64(0)
	note := ""
	switch tr {
	case "polling-cl", "polling-chunked", "polling-jsonp-cl", "polling-jsonp-chunked":
		resp, err := http.Get(ts.URL + "/?EIO=4&transport=polling")
		if err != nil {
			res.Inconclusive("limit", err.Error(), 0)
			return
		}
		b, _ := io.ReadAll(resp.Body)
		resp.Body.Close()
		i := strings.Index(string(b), `"sid":"`)
		if i < 0 {
			res.Inconclusive("limit", "no sid in "+string(b), 0)
			return
		}
		sid := string(b)[i+7:]
		sid = sid[:strings.IndexByte(sid, '"')]
		body := &countingReader{total: size + 1}
		url := ts.URL + "/?EIO=4&transport=polling&sid=" + sid
		jsonp := strings.Contains(tr, "jsonp")
		if jsonp {
			// JSON-P clients post a form: d=<payload>
			body = &countingReader{total: size + 3, prefix: "d=4"}
			url += "&j=0"
		}
		req, _ := http.NewRequest("POST", url, body)
		if jsonp {
			req.Header.Set("Content-Type", "application/x-www-form-urlencoded")
		}
		if strings.HasSuffix(tr, "-cl") {
			req.ContentLength = body.total
		} else {
			req.ContentLength = -1 // chunked transfer encoding: the size is not declared
		}
		cl := &http.Client{Timeout: 20 * time.Second}
		r2, err := cl.Do(req)
		if err == nil {
			io.Copy(io.Discard, r2.Body)
			r2.Body.Close()
			note = fmt.Sprint("status ", r2.StatusCode)
		} else {
			note = "post error"
		}
		consumed = atomic.LoadInt64(&body.read)
	case "websocket":
		ctx, cancel := context.WithTimeout(context.Background(), 20*time.Second)
		defer cancel()
		c, _, err := websocket.Dial(ctx, "ws"+ts.URL[4:]+"/?EIO=4&transport=websocket", &websocket.DialOptions{CompressionMode: websocket.CompressionDisabled})
		if err != nil {
			res.Inconclusive("limit", err.Error(), 0)
			return
		}
		defer c.Close(websocket.StatusNormalClosure, "")
		c.Read(ctx) // open packet
		msg := make([]byte, size+1)
		for i := range msg {
			msg[i] = 'a'
		}
		msg[0] = '4'
		if err := c.Write(ctx, websocket.MessageText, msg); err != nil {
			note = "write error"
		}
		consumed = size + 1
		go func() { c.Read(ctx) }() // let close frames be processed
	}
	// outcome: delivered or closed, whichever comes (give both a moment)
	dl := time.After(3 * time.Second)
	tick := time.NewTicker(2 * time.Millisecond)
	defer tick.Stop()
loop:
	for {
		select {
		case <-obs.closedCh:
			break loop
		case <-dl:
			break loop
		case <-tick.C:
			obs.mu.Lock()
			n := len(obs.got)
			obs.mu.Unlock()
			if n > 0 {
				break loop
			}
		}
	}
	time.Sleep(30 * time.Millisecond)
	obs.mu.Lock()
	delivered := len(obs.got) == 1 && int64(obs.got[0]) == size
	closed, reason := obs.closed, obs.reason
	obs.mu.Unlock()
	overhead := 1
	if strings.Contains(tr, "jsonp") {
		overhead = 3
	}
	rec := vtrace.Rec{"ev": "limit", "dir": "c2s", "overhead": overhead, "transport": tr, "limitName": limitName, "limit": effLimit, "size": size,
		"delivered": delivered, "closed": closed, "reason": reason, "consumed": consumed, "slack": 4 << 20, "note": note}
	w.Write([]vtrace.Rec{rec})
	res.Case(fmt.Sprint("c2s", tr, limitName, size), true)
	res.Sample(rec)
}

// outbound: the server sends one message of `size` bytes to the repository's own client
func outbound(w *vtrace.Writer, res *vres.Result, tr string, size int64) {
	cfg := eio.ServerConfig{PingInterval: 5 * time.Second, PingTimeout: 5 * time.Second}
	srv, ts, _, socks := newEIOServer(&cfg)
	defer func() { srv.Close(); ts.CloseClientConnections(); ts.Close() }()
	var mu sync.Mutex
	var got []int
	closed := false
	reason := ""
	cb := &eio.Callbacks{
		OnPacket: func(ps ...*parser.Packet) {
			mu.Lock()
			for _, p := range ps {
				if p.Type == parser.PacketTypeMessage {
					got = append(got, len(p.Data))
				}
			}
			mu.Unlock()
		},
		OnClose: func(r eio.Reason, err error) { mu.Lock(); closed = true; reason = string(r); mu.Unlock() },
	}
	trs := []string{tr}
	upgraded := make(chan struct{}, 1)
	if tr == "upgraded-websocket" { // a websocket reached by upgrading from long-polling
		trs = []string{"polling", "websocket"}
	}
	ccfg := &eio.ClientConfig{Transports: trs, UpgradeDone: func(string) { upgraded <- struct{}{} },
		WebSocketDialOptions: &websocket.DialOptions{CompressionMode: websocket.CompressionDisabled}}
	c, err := eio.Dial(ts.URL, cb, ccfg)
	if err != nil {
		res.Inconclusive("limit", err.Error(), 0)
		return
	}
	defer c.Close()
	var ss eio.ServerSocket
	select {
	case ss = <-socks:
	case <-time.After(3 * time.Second):
		res.Inconclusive("limit", "no server socket", 0)
		return
	}
	if len(trs) > 1 {
		select {
		case <-upgraded:
		case <-time.After(4 * time.Second):
			res.Inconclusive("limit", "upgrade did not complete", 0)
			return
		}
		time.Sleep(30 * time.Millisecond)
	}
	ss.Send(pkt(int(size), false))
	dl := time.Now().Add(3 * time.Second)
	for time.Now().Before(dl) {
		mu.Lock()
		n, cl := len(got), closed
		mu.Unlock()
		if n > 0 || cl {
			break
		}
		time.Sleep(2 * time.Millisecond)
	}
	time.Sleep(20 * time.Millisecond)
	mu.Lock()
	delivered := len(got) == 1 && int64(got[0]) == size
	rec := vtrace.Rec{"ev": "limit", "dir": "s2c", "overhead": 1, "transport": tr, "limitName": "announced", "limit": int64(1e6), "size": size,
		"delivered": delivered, "closed": closed, "reason": reason, "consumed": 0, "slack": 0, "note": ""}
	mu.Unlock()
	w.Write([]vtrace.Rec{rec})
	res.Case(fmt.Sprint("s2c", tr, size), true)
}

func TestC13(t *testing.T) {
	out := vres.OutDir()
	res := vres.New()
	res.Rule = "batch: every vector of <= N encoded packet sizes from {1,2,3,4,6,9} x maxPayload 1..20 through the real write batching (N=4 quick, 6 thorough; non-trivial when >=2 packets), plus seeded vectors with binary (base64) packets and non-polling/unlimited controls; limit: one message per (limit, transport, declaration, direction, size) cell on a real server"
	w, err := vtrace.NewWriter(filepath.Join(out, "trace.ndjson"))
	if err != nil {
		t.Fatal(err)
	}
	w.Write([]vtrace.Rec{{"ev": "reset", "scenario": 1, "cfg": "vectors"}})
	enumBatches(w, res, vres.Pick(4, 6))
	res.Exhaustive = true
	// controls and binary packets
	rng := rand.New(rand.NewSource(vres.Seed()))
	for i := 0; i < vres.Pick(2000, 20000); i++ {
		n := 1 + rng.Intn(7)
		ps := make([]*parser.Packet, n)
		for j := range ps {
			ps[j] = pkt(rng.Intn(12), rng.Intn(3) == 0)
		}
		tr := "polling"
		max := int64(rng.Intn(40))
		switch rng.Intn(6) {
		case 0:
			tr = "websocket"
		case 1:
			max = 0
		}
		batchRecord(w, res, max, tr, ps)
	}
	res.Count("batch_records", w.Lines())

	// limits
	type lim struct {
		name string
		cfg  eio.ServerConfig
		eff  int64
	}
	lims := []lim{
		{"tiny", eio.ServerConfig{MaxBufferSize: 100}, 100},
		{"default", eio.ServerConfig{}, 1e6},
		{"disabled", eio.ServerConfig{DisableMaxBufferSize: true}, 0},
	}
	for _, lm := range lims {
		var sizes []int64
		switch lm.name {
		case "tiny":
			sizes = []int64{10, 90, 99, 101, 200, 32767, 40000, 1000}
		case "default":
			sizes = []int64{100, 32767, 32768, 40000, 65536, 999990, 1000001, 1000100}
		case "disabled":
			sizes = []int64{100, 32767, 32768, 40000, 65536, 1200000}
		}
		for _, tr := range []string{"polling-cl", "polling-chunked", "polling-jsonp-cl", "polling-jsonp-chunked", "websocket"} {
			for _, s := range sizes {
				inbound(w, res, lm.name, lm.cfg, lm.eff, tr, s)
			}
		}
	}
	// a large undeclared body must not be swallowed
	inbound(w, res, "10k", eio.ServerConfig{MaxBufferSize: 10000}, 10000, "polling-chunked", 48<<20)
	for _, tr := range []string{"polling", "websocket", "upgraded-websocket"} {
		for _, s := range []int64{100, 32767, 32768, 40000, 65536, 200000, 999000} {
			outbound(w, res, tr, s)
		}
	}
	res.Count("limit_records", w.Lines())
	w.Close()
	if err := res.Write(out, "result.json"); err != nil {
		t.Fatal(err)
	}
}
