//go:build verif

// Driver for C04: (V) every membership matrix of 3 sockets x 3 rooms x every
// (T, E) on real adapters; (T) seeded histories of join / leave / disconnect /
// SocketsJoin / SocketsLeave / DisconnectSockets / broadcasts on a real server,
// observed through hooks under the adapter's mutex; (S) membership changes
// placed inside apply()'s unlock window and inside Join's read-then-call window.
package c04

import (
	"fmt"
	"math/rand"
	"path/filepath"
	"sort"
	"strings"
	"sync"
	"testing"
	"time"

	mapset "github.com/deckarep/golang-set/v2"
	sio "github.com/karagenc/socket.io-go"
	"github.com/karagenc/socket.io-go/adapter"
	"github.com/karagenc/socket.io-go/parser"
	jsonparser "github.com/karagenc/socket.io-go/parser/json"
	"github.com/karagenc/socket.io-go/parser/json/serializer/stdjson"

	"verif/harness/gates"
	"verif/harness/rig"
	"verif/harness/vres"
	"verif/harness/vtrace"
)

// ---- adapter level ---------------------------------------------------------

type fakeSocket struct {
	id adapter.SocketID
	a  adapter.Adapter
}

func (f *fakeSocket) ID() adapter.SocketID                            { return f.id }
func (f *fakeSocket) Join(room ...adapter.Room)                       { f.a.AddAll(f.id, room) }
func (f *fakeSocket) Leave(room adapter.Room)                         { f.a.Delete(f.id, room) }
func (f *fakeSocket) Emit(eventName string, v ...any)                 {}
func (f *fakeSocket) To(room ...adapter.Room) *adapter.BroadcastOperator     { return nil }
func (f *fakeSocket) In(room ...adapter.Room) *adapter.BroadcastOperator     { return nil }
func (f *fakeSocket) Except(room ...adapter.Room) *adapter.BroadcastOperator { return nil }
func (f *fakeSocket) Broadcast() *adapter.BroadcastOperator                  { return nil }
func (f *fakeSocket) Disconnect(close bool)                           {}

func subsets(xs []string) [][]string {
	out := [][]string{}
	for m := 0; m < 1<<len(xs); m++ {
		s := []string{}
		for i, x := range xs {
			if m&(1<<i) != 0 {
				s = append(s, x)
			}
		}
		out = append(out, s)
	}
	return out
}

func roomSet(rs []string) mapset.Set[adapter.Room] {
	s := mapset.NewSet[adapter.Room]()
	for _, r := range rs {
		s.Add(adapter.Room(r))
	}
	return s
}

func matrix(w *vtrace.Writer, res *vres.Result, kind string, named, universe []string, withFetch bool) {
	socks := []string{"s1", "s2", "s3"}
	pc := jsonparser.NewCreator(0, stdjson.New())
	var creator adapter.Creator
	if kind == "memory" {
		creator = adapter.NewInMemoryAdapterCreator()
	} else {
		creator = adapter.VerifNewSessionAwareAdapterCreator(time.Minute, 0)
	}
	subs := subsets(named)
	tes := subsets(universe)
	for m := 0; m < len(subs)*len(subs)*len(subs); m++ {
		mem := map[string][]string{}
		idx := m
		store := adapter.NewTestSocketStore()
		a := creator(store, pc)
		var mu sync.Mutex
		var got []string
		store.SetSendBuffers(func(sid adapter.SocketID, buffers [][]byte) bool {
			mu.Lock()
			got = append(got, string(sid))
			mu.Unlock()
			return true
		})
		live := []string{}
		for si, s := range socks {
			rs := append([]string{s}, subs[idx%len(subs)]...)
			idx /= len(subs)
			mem[s] = rs
			rooms := make([]adapter.Room, len(rs))
			for i, r := range rs {
				rooms[i] = adapter.Room(r)
			}
			a.AddAll(adapter.SocketID(s), rooms)
			// every 5th matrix: the third socket is known to the adapter but not to the socket store
			if !(si == 2 && m%5 == 4) {
				store.Set(&fakeSocket{id: adapter.SocketID(s), a: a})
				live = append(live, s)
			}
		}
		for _, T := range tes {
			for _, E := range tes {
				opts := adapter.NewBroadcastOptions()
				opts.Rooms, opts.Except = roomSet(T), roomSet(E)
				got = nil
				a.Broadcast(&parser.PacketHeader{Type: parser.PacketTypeEvent, Namespace: "/"}, []any{"ev", 1}, opts)
				rec := vtrace.Rec{"ev": "bc", "kind": "broadcast", "class": kind, "mem": mem, "live": live, "T": T, "E": E, "got": append([]string{}, got...)}
				w.Write([]vtrace.Rec{rec})
				res.Case(fmt.Sprint(kind, "b", mem, live, T, E), len(T)+len(E) > 0)
				if w.Lines()%9000 == 11 {
					res.Sample(rec)
				}
				if withFetch {
					opts2 := adapter.NewBroadcastOptions()
					opts2.Rooms, opts2.Except = roomSet(T), roomSet(E)
					fs := []string{}
					for _, so := range a.FetchSockets(opts2) {
						fs = append(fs, string(so.ID()))
					}
					w.Write([]vtrace.Rec{{"ev": "bc", "kind": "fetch", "class": kind, "mem": mem, "live": live, "T": T, "E": E, "got": fs}})
					res.Case(fmt.Sprint(kind, "f", mem, live, T, E), len(T)+len(E) > 0)
				}
			}
			ss := a.Sockets(roomSet(T)).ToSlice()
			g := make([]string, len(ss))
			for i, x := range ss {
				g[i] = string(x)
			}
			sort.Strings(g)
			w.Write([]vtrace.Rec{{"ev": "bc", "kind": "sockets", "class": kind, "mem": mem, "live": live, "T": T, "E": []string{}, "got": g}})
			res.Case(fmt.Sprint(kind, "s", mem, live, T), len(T) > 0)
		}
		a.Close()
	}
}

// ---- server level ------------------------------------------------------------

type world struct {
	srv   *rig.Server
	mgrs  []*sio.Manager
	mu    sync.Mutex
	socks map[string]sio.ServerSocket // by id
	order []string
}

func newWorld(n int) (*world, error) {
	w := &world{socks: map[string]sio.ServerSocket{}}
	conn := make(chan struct{}, n)
	srv, err := rig.NewServer(nil, func(io *sio.Server) {
		io.Of("/").Use(func(s sio.ServerSocket, h *sio.Handshake) any {
			w.mu.Lock()
			w.socks[string(s.ID())] = s
			w.order = append(w.order, string(s.ID()))
			w.mu.Unlock()
			return nil
		})
		io.Of("/").OnConnection(func(s sio.ServerSocket) { conn <- struct{}{} })
	})
	if err != nil {
		return nil, err
	}
	w.srv = srv
	for i := 0; i < n; i++ {
		m := rig.NewManager(srv.URL(), []string{"websocket"}, &sio.ManagerConfig{NoReconnection: true})
		w.mgrs = append(w.mgrs, m)
		if _, ok := rig.ConnectSocket(m, "/", nil, 5*time.Second); !ok {
			w.close()
			return nil, fmt.Errorf("client %d did not connect", i)
		}
		select {
		case <-conn:
		case <-time.After(5 * time.Second):
			w.close()
			return nil, fmt.Errorf("no connection event")
		}
	}
	return w, nil
}

func (w *world) close() {
	for _, m := range w.mgrs {
		m.Close()
	}
	w.srv.Close()
}

func keep(name string) bool {
	return strings.HasPrefix(name, "rooms.") || strings.HasPrefix(name, "apply.") || strings.HasPrefix(name, "nspstore.") ||
		name == "emit.from" || name == "bc.intent" || name == "reset" || name == "quiesce" || name == "note"
}

type env struct {
	res  *vres.Result
	w    *vtrace.Writer
	scen int
}

func (e *env) begin(cfg string, extra ...any) int {
	e.scen++
	vtrace.Take()
	vtrace.ResetIDs()
	vtrace.Emit("reset", append([]any{"scenario", e.scen, "cfg", cfg}, extra...)...)
	return e.scen
}

func rooms(rs ...string) []sio.Room {
	out := make([]sio.Room, len(rs))
	for i, r := range rs {
		out[i] = sio.Room(r)
	}
	return out
}

func (e *env) roomsOf(w *world, alive map[string]bool) {
	for _, id := range w.order {
		if !alive[id] {
			continue
		}
		rs := []string{}
		for _, r := range w.socks[id].Rooms().ToSlice() {
			rs = append(rs, string(r))
		}
		sort.Strings(rs)
		vtrace.Emit("rooms.of", "sid", id, "rooms", rs)
	}
}

func pick(rng *rand.Rand, xs []string) []string {
	out := []string{}
	for _, x := range xs {
		if rng.Intn(3) == 0 {
			out = append(out, x)
		}
	}
	return out
}

// seeded history on a real server; everything runs on this goroutine, so the hook records are the history
func (e *env) history(rng *rand.Rand, nops int) {
	id := e.begin("history")
	vtrace.Take() // the reset record is re-emitted after the clients connected (their joins belong to the scenario)
	w, err := newWorld(3)
	if err != nil {
		e.res.Inconclusive("rig", err.Error(), id)
		return
	}
	defer w.close()
	recs := vtrace.Take()
	e.w.Write(append([]vtrace.Rec{{"ev": "reset", "scenario": id, "cfg": "history"}}, recs...))
	named := []string{"a", "b", "c"}
	alive := map[string]bool{}
	for _, s := range w.order {
		alive[s] = true
	}
	io := w.srv.IO
	var desc []string
	// operators that are kept and derived from, with the selection each one stands for
	type kept struct {
		op   *sio.BroadcastOperator
		T, E []string
		from string
	}
	var pool []kept
	union := func(a []string, b ...string) []string {
		m := map[string]bool{}
		for _, x := range append(append([]string{}, a...), b...) {
			m[x] = true
		}
		out := []string{}
		for x := range m {
			out = append(out, x)
		}
		sort.Strings(out)
		return out
	}
	for i := 0; i < nops; i++ {
		var live []string
		for _, s := range w.order {
			if alive[s] {
				live = append(live, s)
			}
		}
		if len(live) == 0 {
			break
		}
		s := live[rng.Intn(len(live))]
		sock := w.socks[s]
		T, E := pick(rng, named), pick(rng, named)
		if rng.Intn(4) == 0 {
			T = append(T, live[rng.Intn(len(live))]) // somebody's id room as a target
		}
		switch op := rng.Intn(14); op {
		case 11: // keep an operator
			if rng.Intn(2) == 0 {
				pool = append(pool, kept{op: io.To(rooms(T...)...), T: union(T), E: []string{}})
				desc = append(desc, fmt.Sprint("keep nsp.to", T))
			} else {
				pool = append(pool, kept{op: sock.Broadcast(), T: []string{}, E: []string{s}, from: s})
				desc = append(desc, fmt.Sprint("keep sock.broadcast ", s[:4]))
			}
		case 12: // derive a child from a kept operator (the parent stays in use)
			if len(pool) > 0 {
				p := pool[rng.Intn(len(pool))]
				r := named[rng.Intn(3)]
				if rng.Intn(2) == 0 {
					pool = append(pool, kept{op: p.op.Except(sio.Room(r)), T: p.T, E: union(p.E, r), from: p.from})
					desc = append(desc, fmt.Sprint("derive except ", r))
				} else {
					pool = append(pool, kept{op: p.op.To(sio.Room(r)), T: union(p.T, r), E: p.E, from: p.from})
					desc = append(desc, fmt.Sprint("derive to ", r))
				}
			}
		case 13: // emit through a kept operator: it must still select what it was built for
			if len(pool) > 0 {
				p := pool[rng.Intn(len(pool))]
				if p.from == "" || alive[p.from] {
					desc = append(desc, fmt.Sprint("emit kept", p.T, p.E))
					if p.from != "" {
						vtrace.Emit("emit.from", "sid", p.from)
					}
					vtrace.Emit("bc.intent", "T", p.T, "E", p.E)
					p.op.Emit("ev", i)
				}
			}
		case 0, 1:
			rs := pick(rng, named)
			if len(rs) == 0 {
				rs = []string{"a"}
			}
			desc = append(desc, fmt.Sprint("join ", s[:4], rs))
			sock.Join(rooms(rs...)...)
		case 2:
			r := named[rng.Intn(3)]
			desc = append(desc, fmt.Sprint("leave ", s[:4], r))
			sock.Leave(sio.Room(r))
		case 3:
			desc = append(desc, fmt.Sprint("nsp.to", T, "except", E))
			io.To(rooms(T...)...).Except(rooms(E...)...).Emit("ev", i)
		case 4:
			desc = append(desc, fmt.Sprint("sock.to ", s[:4], T, "except", E))
			vtrace.Emit("emit.from", "sid", s)
			sock.To(rooms(T...)...).Except(rooms(E...)...).Emit("ev", i)
		case 5:
			desc = append(desc, fmt.Sprint("sock.broadcast ", s[:4]))
			vtrace.Emit("emit.from", "sid", s)
			sock.Broadcast().Emit("ev", i)
		case 6:
			r := named[rng.Intn(3)]
			desc = append(desc, fmt.Sprint("socketsJoin", T, r))
			io.In(rooms(T...)...).SocketsJoin(sio.Room(r))
		case 7:
			r := named[rng.Intn(3)]
			desc = append(desc, fmt.Sprint("socketsLeave", T, r))
			io.In(rooms(T...)...).SocketsLeave(sio.Room(r))
		case 8:
			if len(live) > 1 {
				desc = append(desc, fmt.Sprint("disconnect ", s[:4]))
				sock.Disconnect(false)
				alive[s] = false
			}
		case 9:
			if len(T) > 0 && len(live) > 1 && rng.Intn(2) == 0 {
				desc = append(desc, fmt.Sprint("disconnectSockets", T))
				before := map[string]bool{}
				for _, so := range io.In(rooms(T...)...).FetchSockets() {
					before[string(so.ID())] = true
				}
				io.In(rooms(T...)...).DisconnectSockets(false)
				for k := range before {
					alive[k] = false
				}
			}
		case 10:
			desc = append(desc, fmt.Sprint("fetch", T, E))
			io.In(rooms(T...)...).Except(rooms(E...)...).FetchSockets()
		}
		e.roomsOf(w, alive)
	}
	vtrace.Emit("quiesce")
	e.w.Write(vtrace.Take())
	e.res.Case(strings.Join(desc, ";"), true)
	e.res.Sample(desc)
}

// operator lineages: parents stay in use after children were derived from them
func (e *env) lineage() {
	id := e.begin("lineage")
	vtrace.Take()
	w, err := newWorld(3)
	if err != nil {
		e.res.Inconclusive("rig", err.Error(), id)
		return
	}
	defer w.close()
	recs := vtrace.Take()
	e.w.Write(append([]vtrace.Rec{{"ev": "reset", "scenario": id, "cfg": "lineage"}}, recs...))
	s1, s2, s3 := w.order[0], w.order[1], w.order[2]
	w.socks[s1].Join("a")
	w.socks[s2].Join("a", "b")
	w.socks[s3].Join("b", "c")
	type kept struct {
		op   *sio.BroadcastOperator
		T, E []string
		from string
	}
	set := func(a []string, b ...string) []string {
		m := map[string]bool{}
		for _, x := range append(append([]string{}, a...), b...) {
			m[x] = true
		}
		out := []string{}
		for x := range m {
			out = append(out, x)
		}
		sort.Strings(out)
		return out
	}
	io := w.srv.IO
	bases := []kept{
		{op: io.To("a"), T: []string{"a"}, E: []string{}},
		{op: io.Except("a"), T: []string{}, E: []string{"a"}},
		{op: w.socks[s1].Broadcast(), T: []string{}, E: []string{s1}, from: s1},
		{op: w.socks[s2].To("b"), T: []string{"b"}, E: []string{s2}, from: s2},
		{op: w.socks[s3].Except("a"), T: []string{}, E: set([]string{s3}, "a"), from: s3},
	}
	n := 0
	for _, b := range bases {
		fam := []kept{b}
		for gen := 0; gen < 2; gen++ {
			cur := append([]kept{}, fam...)
			for _, p := range cur {
				for _, r := range []string{"b", "c"} {
					fam = append(fam, kept{op: p.op.Except(sio.Room(r)), T: p.T, E: set(p.E, r), from: p.from})
					fam = append(fam, kept{op: p.op.To(sio.Room(r)), T: set(p.T, r), E: p.E, from: p.from})
				}
			}
		}
		// every member of the family - parents included - must still select what it was built for
		for _, k := range fam {
			if k.from != "" {
				vtrace.Emit("emit.from", "sid", k.from)
			}
			vtrace.Emit("bc.intent", "T", k.T, "E", k.E)
			k.op.Emit("ev", n)
			n++
		}
	}
	vtrace.Emit("quiesce")
	e.w.Write(vtrace.Take())
	e.res.Case("lineage", true)
	e.res.Count("lineage_emits", n)
}

// K4 (recorded finding): a socket that left the room named after its id receives its own broadcast
func (e *env) k4() {
	id := e.begin("k4-leave-own-room")
	vtrace.Take()
	w, err := newWorld(2)
	if err != nil {
		e.res.Inconclusive("rig", err.Error(), id)
		return
	}
	defer w.close()
	recs := vtrace.Take()
	e.w.Write(append([]vtrace.Rec{{"ev": "reset", "scenario": id, "cfg": "k4-leave-own-room"}}, recs...))
	s := w.order[0]
	w.socks[s].Leave(sio.Room(s))
	vtrace.Emit("emit.from", "sid", s)
	w.socks[s].Broadcast().Emit("ev", 1)
	vtrace.Emit("quiesce")
	e.w.Write(vtrace.Take())
	e.res.Case("k4", true)
}

// a membership change placed inside apply()'s unlock window
func (e *env) window(mut string) {
	id := e.begin("window-" + mut)
	vtrace.Take()
	w, err := newWorld(3)
	if err != nil {
		e.res.Inconclusive("rig", err.Error(), id)
		return
	}
	defer w.close()
	recs := vtrace.Take()
	e.w.Write(append([]vtrace.Rec{{"ev": "reset", "scenario": id, "cfg": "window-" + mut}}, recs...))
	s1, s2, s3 := w.socks[w.order[0]], w.socks[w.order[1]], w.socks[w.order[2]]
	s1.Join("a")
	s2.Join("a")
	if mut == "leave-except" {
		s3.Join("a", "x")
	}
	ctl := gates.New()
	ctl.HoldIf(func(pt string, k any) bool { return pt == "adapter.apply.window" })
	ctl.Install()
	defer gates.Uninstall()
	done := make(chan struct{})
	go func() {
		w.srv.IO.To("a").Except("x").Emit("ev", 1)
		close(done)
	}()
	wt := ctl.WaitFor(func(*gates.Waiter) bool { return true }, 3*time.Second)
	if wt == nil {
		e.res.Inconclusive("window", "apply never reached its window", id)
		ctl.OpenAll()
		return
	}
	ctl.HoldIf(nil)
	switch mut {
	case "join-target":
		s3.Join("a")
	case "leave-target":
		s1.Leave("a")
		s2.Leave("a")
	case "disconnect":
		s1.Disconnect(false)
		s2.Disconnect(false)
	case "join-except":
		s1.Join("x")
		s2.Join("x")
	case "leave-except":
		s3.Leave("x")
	}
	ctl.Release(wt)
	select {
	case <-done:
	case <-time.After(5 * time.Second):
		e.res.Violation("broadcast-hung", "a broadcast did not return after a membership change inside its window ("+mut+")", id, nil)
	}
	vtrace.Emit("quiesce")
	e.w.Write(vtrace.Take())
	e.res.Case("window-"+mut, true)
}

// Join racing the socket's close: the join function is read, the socket closes, the join is applied
func (e *env) joinRace() {
	id := e.begin("join-vs-close")
	vtrace.Take()
	w, err := newWorld(2)
	if err != nil {
		e.res.Inconclusive("rig", err.Error(), id)
		return
	}
	defer w.close()
	recs := vtrace.Take()
	e.w.Write(append([]vtrace.Rec{{"ev": "reset", "scenario": id, "cfg": "join-vs-close"}}, recs...))
	s1 := w.socks[w.order[0]]
	ctl := gates.New()
	ctl.HoldIf(func(pt string, k any) bool { return pt == "ssocket.join.window" })
	ctl.Install()
	defer gates.Uninstall()
	done := make(chan struct{})
	go func() { s1.Join("late"); close(done) }()
	wt := ctl.WaitFor(func(*gates.Waiter) bool { return true }, 3*time.Second)
	ctl.HoldIf(nil)
	closed := make(chan struct{})
	go func() { s1.Disconnect(false); close(closed) }()
	// the close either completes (join read before the swap) or waits for the join (join holds its lock)
	select {
	case <-closed:
	case <-time.After(300 * time.Millisecond):
	}
	if wt != nil {
		ctl.Release(wt)
	}
	<-done
	select {
	case <-closed:
	case <-time.After(12 * time.Second):
		e.res.Inconclusive("join-vs-close", "disconnect did not return", id)
	}
	rs := []string{}
	for _, r := range s1.Rooms().ToSlice() {
		rs = append(rs, string(r))
	}
	vtrace.Emit("quiesce")
	if len(rs) > 0 {
		e.res.Violation("closed-socket-in-room", fmt.Sprintf("a Join that overlapped the socket's disconnect left the closed socket in rooms %v", rs), id, nil)
	}
	e.w.Write(vtrace.Take())
	e.res.Case("join-vs-close", true)
}

func TestC04(t *testing.T) {
	out := vres.OutDir()
	res := vres.New()
	res.Rule = "bc: every membership matrix of 3 sockets x rooms {a,b,c} (512) x every (T,E) over those rooms (64) for Broadcast and FetchSockets, every T for Sockets, on the real in-memory adapter (thorough: also the session-aware adapter), plus matrices over {a} with id rooms among the targets/exclusions; non-trivial when T or E is non-empty. history: seeded op sequences on a real server with 3 clients; window/join-vs-close: gated placements"
	w, err := vtrace.NewWriter(filepath.Join(out, "trace.ndjson"))
	if err != nil {
		t.Fatal(err)
	}
	w.Write([]vtrace.Rec{{"ev": "reset", "scenario": 0, "cfg": "vectors"}})
	matrix(w, res, "memory", []string{"a", "b", "c"}, []string{"a", "b", "c"}, true)
	matrix(w, res, "memory", []string{"a"}, []string{"a", "s1", "s2", "s3"}, false)
	if vres.Tier() == "thorough" {
		matrix(w, res, "session", []string{"a", "b", "c"}, []string{"a", "b", "c"}, true)
	} else {
		matrix(w, res, "session", []string{"a"}, []string{"a", "s1", "s2"}, false)
	}
	res.Exhaustive = true
	res.Count("vector_records", w.Lines())

	vtrace.Install()
	defer vtrace.Uninstall()
	vtrace.SetFilter(keep)
	e := &env{res: res, w: w}
	rng := rand.New(rand.NewSource(vres.Seed()))
	for i := 0; i < vres.Pick(25, 400); i++ {
		e.history(rng, 14)
	}
	for _, m := range []string{"join-target", "leave-target", "disconnect", "join-except", "leave-except"} {
		e.window(m)
	}
	e.joinRace()
	e.lineage()
	e.k4()
	res.Scenarios = e.scen
	w.Close()
	if err := res.Write(out, "result.json"); err != nil {
		t.Fatal(err)
	}
}
