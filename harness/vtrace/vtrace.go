//go:build verif

// Package vtrace is the sink for the verification hooks compiled into
// /repo with the build tag `verif`. It assigns a process-wide sequence
// number inside the hook call (hence inside the critical section that
// protects the reported change), interns object pointers as small
// integers and writes NDJSON for the TLA+ trace specifications.
package vtrace

import (
	"bufio"
	"encoding/json"
	"fmt"
	"os"
	"reflect"
	"runtime"
	"strconv"
	"strings"
	"sync"
	"time"

	sio "github.com/karagenc/socket.io-go"
	eioparser "github.com/karagenc/socket.io-go/engine.io/parser"
)

type Rec map[string]any

var (
	mu        sync.Mutex
	recs      []Rec
	seq       int
	ids       = map[any]int{}
	gids      = map[int64]int{}
	names     = map[int]string{} // optional alias of object ids
	withG     = true
	start     = time.Now()
	filter    func(name string) bool
	objFilter func(o any) bool
	objKeys   = map[string]bool{"o": true}
	Convert   func(v any) (any, bool) // extra value converter installed by drivers
)

// Install routes hook events into this package.
func Install() {
	sio.VerifSetSink(sink)
}

func Uninstall() { sio.VerifSetSink(nil) }

// InstallLocks records the calls of the library's mutexes (internal/sync under the verif tag) as
// {"ev":"lk","op":"req|acq|rel","mode":"w|r","m":instance,"g":goroutine,"site":"file:line"}.
func InstallLocks() {
	sio.VerifSetLockSink(func(op, mode string, m any, pc uintptr) {
		gid := GoID()
		mu.Lock()
		defer mu.Unlock()
		site, ok := sites[pc]
		if !ok {
			fr, _ := runtime.CallersFrames([]uintptr{pc}).Next()
			f := fr.File
			if i := strings.LastIndex(f, "socket.io-go/"); i >= 0 {
				f = f[i+len("socket.io-go/"):]
			} else if i := strings.LastIndex(f, "/repo/"); i >= 0 {
				f = f[i+len("/repo/"):]
			}
			site = f + ":" + strconv.Itoa(fr.Line)
			sites[pc] = site
		}
		seq++
		g, ok := gids[gid]
		if !ok {
			g = len(gids) + 1
			gids[gid] = g
		}
		recs = append(recs, Rec{"seq": seq, "ev": "lk", "op": op, "mode": mode, "m": idLocked(m), "g": g, "site": site})
	})
}

func UninstallLocks() { sio.VerifSetLockSink(nil) }

// AliveGs lists the goroutines (by the small ids used in the records) that still exist.
func AliveGs() []int {
	buf := make([]byte, 4<<20)
	n := runtime.Stack(buf, true)
	out := []int{}
	mu.Lock()
	defer mu.Unlock()
	for _, ln := range strings.Split(string(buf[:n]), "\n") {
		if !strings.HasPrefix(ln, "goroutine ") {
			continue
		}
		f := strings.Fields(ln)
		if len(f) < 2 {
			continue
		}
		id, err := strconv.ParseInt(f[1], 10, 64)
		if err != nil {
			continue
		}
		if g, ok := gids[id]; ok {
			out = append(out, g)
		}
	}
	return out
}

var sites = map[uintptr]string{}

// SetFilter restricts which hook events are recorded (nil = all).
func SetFilter(f func(name string) bool) { mu.Lock(); filter = f; mu.Unlock() }

// SetObjectFilter drops hook events whose "o" object is not accepted (nil = all).
func SetObjectFilter(f func(o any) bool) { mu.Lock(); objFilter = f; mu.Unlock() }

// SetObjectKeys names the record keys that hold the object the filter looks at (default "o").
func SetObjectKeys(keys ...string) {
	mu.Lock()
	objKeys = map[string]bool{}
	for _, k := range keys {
		objKeys[k] = true
	}
	mu.Unlock()
}

func WithGoroutine(on bool) { mu.Lock(); withG = on; mu.Unlock() }

// GoID returns the runtime id of the calling goroutine.
func GoID() int64 {
	var buf [64]byte
	n := runtime.Stack(buf[:], false)
	s := string(buf[:n])
	s = strings.TrimPrefix(s, "goroutine ")
	i := strings.IndexByte(s, ' ')
	id, _ := strconv.ParseInt(s[:i], 10, 64)
	return id
}

func sink(name string, kv []any) {
	gid := int64(0)
	if withG {
		gid = GoID()
	}
	mu.Lock()
	defer mu.Unlock()
	if filter != nil && !filter(name) {
		return
	}
	if objFilter != nil {
		for i := 0; i+1 < len(kv); i += 2 {
			if k, _ := kv[i].(string); objKeys[k] {
				if !objFilter(kv[i+1]) {
					return
				}
				break
			}
		}
	}
	emitLocked(name, gid, kv)
}

// Emit adds a harness-side record using the same sequence counter.
func Emit(name string, kv ...any) {
	gid := int64(0)
	if withG {
		gid = GoID()
	}
	mu.Lock()
	defer mu.Unlock()
	emitLocked(name, gid, kv)
}

func emitLocked(name string, gid int64, kv []any) {
	seq++
	r := Rec{"seq": seq, "ev": name}
	if withG {
		g, ok := gids[gid]
		if !ok {
			g = len(gids) + 1
			gids[gid] = g
		}
		r["g"] = g
	}
	for i := 0; i+1 < len(kv); i += 2 {
		k, _ := kv[i].(string)
		r[k] = conv(kv[i+1])
	}
	recs = append(recs, r)
}

// ID interns an object (pointer) and returns its small integer id.
func ID(o any) int {
	mu.Lock()
	defer mu.Unlock()
	return idLocked(o)
}

func idLocked(o any) int {
	id, ok := ids[o]
	if !ok {
		id = len(ids) + 1
		ids[o] = id
	}
	return id
}

// G returns the interned goroutine number used in records for the calling goroutine.
func G() int {
	gid := GoID()
	mu.Lock()
	defer mu.Unlock()
	g, ok := gids[gid]
	if !ok {
		g = len(gids) + 1
		gids[gid] = g
	}
	return g
}

// Tag renders an Engine.IO packet as a short printable identifier.
func Tag(p *eioparser.Packet) string {
	d := p.Data
	if len(d) > 40 {
		d = d[:40]
	}
	b := make([]byte, 0, len(d)+2)
	b = append(b, '0'+byte(p.Type))
	if p.IsBinary {
		b = append(b, 'b')
	}
	for _, c := range d {
		if c < 0x20 || c > 0x7e || c == '"' || c == '\\' {
			c = '?'
		}
		b = append(b, c)
	}
	return string(b)
}

func sanitize(d []byte, max int) string {
	if len(d) > max {
		d = d[:max]
	}
	b := make([]byte, 0, len(d))
	for _, c := range d {
		if c < 0x20 || c > 0x7e || c == '"' || c == '\\' {
			c = '?'
		}
		b = append(b, c)
	}
	return string(b)
}

func conv(v any) any {
	if Convert != nil {
		if c, ok := Convert(v); ok {
			return c
		}
	}
	switch x := v.(type) {
	case nil:
		return 0
	case int, int64, int32, uint64, uint32, uint16, uint8, int8, int16, uint, string, bool:
		return x
	case time.Duration:
		return int64(x / time.Microsecond)
	case time.Time:
		return int64(x.Sub(start) / time.Microsecond)
	case []string:
		if x == nil {
			return []string{}
		}
		return x
	case []int:
		if x == nil {
			return []int{}
		}
		return x
	case map[string]int, map[string]string, map[string][]string, map[string]any, map[string]bool:
		return x
	case [][]byte:
		// frames of one Socket.IO packet: the header frame identifies it
		if len(x) == 0 {
			return ""
		}
		return sanitize(x[0], 60)
	case []byte:
		return sanitize(x, 60)
	case []*eioparser.Packet:
		t := make([]string, len(x))
		for i, p := range x {
			t[i] = Tag(p)
		}
		return t
	case interface{ Name() string }:
		return x.Name()
	case error:
		return x.Error()
	case fmt.Stringer:
		if rv := reflect.ValueOf(v); rv.Kind() != reflect.Ptr {
			return x.String()
		}
	}
	rv := reflect.ValueOf(v)
	if rv.Kind() == reflect.Struct && rv.Type().Name() == "PtrID" && rv.NumField() == 1 {
		// identify by pointer identity, whatever it points to
		p := rv.Field(0).Interface()
		if p == nil {
			return 0
		}
		return idLocked(p)
	}
	switch rv.Kind() {
	case reflect.Uintptr:
		if rv.Uint() == 0 {
			return 0
		}
		return idLocked(uintptr(rv.Uint()))
	case reflect.Ptr, reflect.Chan, reflect.Map, reflect.UnsafePointer, reflect.Func:
		if rv.IsNil() {
			return 0
		}
		if rv.Kind() == reflect.Ptr && rv.Elem().Kind() == reflect.Func {
			// handlers are pointers to funcs: the function is the identity
			if rv.Elem().IsNil() {
				return 0
			}
			return idLocked(rv.Elem().Pointer())
		}
		if rv.Kind() == reflect.Ptr {
			return idLocked(v)
		}
		return idLocked(rv.Pointer())
	case reflect.String:
		return rv.String()
	case reflect.Int, reflect.Int8, reflect.Int16, reflect.Int32, reflect.Int64:
		return rv.Int()
	case reflect.Uint, reflect.Uint8, reflect.Uint16, reflect.Uint32, reflect.Uint64:
		return rv.Uint()
	case reflect.Bool:
		return rv.Bool()
	case reflect.Slice:
		out := make([]any, rv.Len())
		for i := range out {
			out[i] = conv(rv.Index(i).Interface())
		}
		return out
	}
	return fmt.Sprint(v)
}

// NowUS is microseconds since the harness started (fits TLC's 32-bit ints for ~35 min).
func NowUS() int64 { return int64(time.Since(start) / time.Microsecond) }

// Take returns and clears the recorded events.
func Take() []Rec {
	mu.Lock()
	defer mu.Unlock()
	r := recs
	recs = nil
	return r
}

// Len is the number of records currently buffered.
func Len() int { mu.Lock(); defer mu.Unlock(); return len(recs) }

// Snapshot returns a copy of the records without clearing.
func Snapshot() []Rec {
	mu.Lock()
	defer mu.Unlock()
	return append([]Rec(nil), recs...)
}

// ResetIDs forgets object and goroutine interning (between scenarios).
func ResetIDs() {
	mu.Lock()
	defer mu.Unlock()
	ids = map[any]int{}
	gids = map[int64]int{}
}

// Writer appends scenarios to an NDJSON file.
type Writer struct {
	f *os.File
	w *bufio.Writer
	n int
}

func NewWriter(path string) (*Writer, error) {
	f, err := os.Create(path)
	if err != nil {
		return nil, err
	}
	return &Writer{f: f, w: bufio.NewWriterSize(f, 1<<20)}, nil
}

func (w *Writer) Write(rs []Rec) error {
	for _, r := range rs {
		b, err := json.Marshal(r)
		if err != nil {
			return err
		}
		w.w.Write(b)
		w.w.WriteByte('\n')
		w.n++
	}
	return nil
}

func (w *Writer) Lines() int { return w.n }

func (w *Writer) Close() error {
	if err := w.w.Flush(); err != nil {
		return err
	}
	return w.f.Close()
}
