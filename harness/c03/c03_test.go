//go:build verif

// Driver for C03 (acknowledgements).  Forces TLC-generated interleavings of
// the reply path and the timer goroutine on real client/server sockets (gates
// at ack.call.beforeLock / ack.timer.beforeLock / ack.timer.beforePurge), runs
// offline-buffer, many-outstanding and mid-flight-disconnect scenarios, logs
// everything for validation against AcksTrace.tla and judges callback counts
// and values directly.
package c03

import (
	"encoding/json"
	"fmt"
	"math/rand"
	"os"
	"path/filepath"
	"strings"
	"sync"
	"testing"
	"time"

	sio "github.com/karagenc/socket.io-go"

	"verif/harness/gates"
	"verif/harness/rig"
	"verif/harness/vres"
	"verif/harness/vtrace"
)

type cbRec struct {
	kind string
	val  int
}

type world struct {
	mu     sync.Mutex
	cbs    map[int][]cbRec
	ackFn  map[int]func()
	got    []int // ks the peer's handler received, in order
	srv    *rig.Server
	mgr    *sio.Manager
	csock  sio.ClientSocket
	ssock  sio.ServerSocket
	sready chan struct{}
}

func bin(k, i int) sio.Binary { return sio.Binary(fmt.Sprintf("att-%d-%d", k, i)) }

// register handlers "q0".."q3" (k + n attachments + ack) on a socket
func (w *world) handlers(on func(ev string, h any)) {
	rec := func(k int, ack func(int)) {
		w.mu.Lock()
		w.got = append(w.got, k)
		w.ackFn[k] = func() { ack(k) }
		w.mu.Unlock()
	}
	on("q0", func(k int, ack func(int)) { rec(k, ack) })
	on("q1", func(k int, a sio.Binary, ack func(int)) { rec(k, ack) })
	on("q2", func(k int, a, b sio.Binary, ack func(int)) { rec(k, ack) })
	on("q3", func(k int, a, b, c sio.Binary, ack func(int)) { rec(k, ack) })
	on("plain", func(k int) {
		w.mu.Lock()
		w.got = append(w.got, k)
		w.mu.Unlock()
	})
}

func newWorld(dir string, transports []string, connect bool) (*world, error) {
	w := &world{cbs: map[int][]cbRec{}, ackFn: map[int]func(){}, sready: make(chan struct{})}
	var once sync.Once
	srv, err := rig.NewServer(nil, func(io *sio.Server) {
		io.Of("/").Use(func(s sio.ServerSocket, h *sio.Handshake) any {
			if dir == "c2s" {
				w.handlers(s.OnEvent)
			}
			w.mu.Lock()
			w.ssock = s
			w.mu.Unlock()
			return nil
		})
		io.Of("/").OnConnection(func(s sio.ServerSocket) { once.Do(func() { close(w.sready) }) })
	})
	if err != nil {
		return nil, err
	}
	w.srv = srv
	w.mgr = rig.NewManager(srv.URL(), transports, &sio.ManagerConfig{NoReconnection: true})
	w.csock = w.mgr.Socket("/", nil)
	if dir == "s2c" {
		w.handlers(w.csock.OnEvent)
	}
	if connect {
		if !w.connect() {
			w.close()
			return nil, fmt.Errorf("client did not connect")
		}
	}
	return w, nil
}

func (w *world) connect() bool {
	ch := make(chan struct{}, 1)
	var once sync.Once
	w.csock.OnConnect(func() { once.Do(func() { close(ch) }) })
	w.csock.Connect()
	select {
	case <-ch:
	case <-time.After(5 * time.Second):
		return false
	}
	select {
	case <-w.sready:
		return true
	case <-time.After(5 * time.Second):
		return false
	}
}

func (w *world) close() {
	w.mgr.Close()
	w.srv.Close()
}

func (w *world) cb(k int) func(error, int) {
	return func(err error, v int) {
		kind := "reply"
		if err != nil {
			kind = "timeout"
			if err != sio.ErrAckTimeout {
				kind = "error:" + err.Error()
			}
		}
		ok := (kind == "reply" && v == k) || (kind == "timeout" && v == 0)
		vtrace.Emit("cb", "k", k, "kind", kind, "ok", ok)
		w.mu.Lock()
		w.cbs[k] = append(w.cbs[k], cbRec{kind, v})
		w.mu.Unlock()
	}
}

// emit number k with natt attachments from the emitting side
func (w *world) emit(dir string, k, natt int, timeout time.Duration) {
	args := []any{k}
	for i := 0; i < natt; i++ {
		args = append(args, bin(k, i))
	}
	ev := fmt.Sprintf("q%d", natt)
	vtrace.Emit("emit.start", "k", k)
	if timeout > 0 {
		args = append(args, w.cb(k))
		if dir == "c2s" {
			w.csock.Timeout(timeout).Emit(ev, args...)
		} else {
			w.ssock.Timeout(timeout).Emit(ev, args...)
		}
	} else {
		f := w.cb(k)
		args = append(args, func(v int) { f(nil, v) })
		if dir == "c2s" {
			w.csock.Emit(ev, args...)
		} else {
			w.ssock.Emit(ev, args...)
		}
	}
}

func (w *world) ncb(k int) int { w.mu.Lock(); defer w.mu.Unlock(); return len(w.cbs[k]) }

type env struct {
	res  *vres.Result
	w    *vtrace.Writer
	scen int
}

func keep(name string) bool {
	return strings.HasPrefix(name, "ack.") || strings.HasPrefix(name, "sendbuf.") || name == "emit.start" ||
		name == "cb" || name == "reset" || name == "quiesce" || name == "note"
}

func (e *env) begin(cfg string, extra ...any) int {
	e.scen++
	vtrace.Take()
	vtrace.ResetIDs()
	vtrace.Emit("reset", append([]any{"scenario", e.scen, "cfg", cfg}, extra...)...)
	return e.scen
}

func (e *env) end() { e.w.Write(vtrace.Take()) }

// judge: callback counts and kinds for the given emits
func (e *env) judge(id int, w *world, want map[int]string, repro any) {
	w.mu.Lock()
	defer w.mu.Unlock()
	for k, kind := range want {
		c := w.cbs[k]
		switch {
		case kind == "any1" && len(c) == 1 && (c[0].kind == "reply" || c[0].kind == "timeout"):
		case kind == "atmost1" && len(c) <= 1:
		case len(c) == 1 && c[0].kind == kind:
		default:
			e.res.Violation("ack-callback-"+kind, fmt.Sprintf("emit %d: expected %s, callback invocations were %v", k, kind, c), id, repro)
		}
		for _, x := range c {
			if x.kind == "reply" && x.val != k {
				e.res.Violation("ack-wrong-reply", fmt.Sprintf("emit %d got the reply %d", k, x.val), id, repro)
			}
		}
	}
}

func lastEvent(name string, pred func(vtrace.Rec) bool) bool {
	for _, r := range vtrace.Snapshot() {
		if r["ev"] == name && pred(r) {
			return true
		}
	}
	return false
}

// ---------------------------------------------------------------------------
// forced interleavings of reply path and timer (one ack id per scenario)

func (e *env) runScript(dir string, transports []string, steps [][]string) {
	id := e.begin("race-"+dir, "steps", len(steps))
	w, err := newWorld(dir, transports, true)
	if err != nil {
		e.res.Inconclusive("rig", err.Error(), id)
		e.end()
		return
	}
	defer w.close()
	ctl := gates.New()
	ctl.HoldIf(func(pt string, key any) bool { return strings.HasPrefix(pt, "ack.") })
	ctl.Install()
	defer gates.Uninstall()
	const T = 25 * time.Millisecond
	at := func(pt string) func(*gates.Waiter) bool { return func(w *gates.Waiter) bool { return w.Point == pt } }
	ks := map[string]int{}
	for _, st := range steps {
		name, act := st[0], st[1]
		if _, ok := ks[name]; !ok {
			ks[name] = len(ks) + 1
		}
		k := ks[name]
		switch act {
		case "register":
			w.emit(dir, k, 0, T)
		case "peerack":
			if !rig.WaitUntil(3*time.Second, func() bool { w.mu.Lock(); defer w.mu.Unlock(); return w.ackFn[k] != nil }) {
				e.res.Inconclusive("script", "peer never received the event", id)
				continue
			}
			w.mu.Lock()
			f := w.ackFn[k]
			w.mu.Unlock()
			go f()
		case "lookup":
			rig.WaitUntil(2*time.Second, func() bool {
				return ctl.Find(at("ack.call.beforeLock")) != nil ||
					lastEvent("ack.lookup", func(r vtrace.Rec) bool { return r["found"] == false })
			})
		case "calldecide":
			if wt := ctl.Find(at("ack.call.beforeLock")); wt != nil {
				ctl.Release(wt)
				rig.WaitUntil(time.Second, func() bool { return lastEvent("ack.call.decide", func(vtrace.Rec) bool { return true }) })
			}
		case "callinvoke":
			rig.WaitUntil(500*time.Millisecond, func() bool { return w.ncb(k) > 0 })
		case "timerwake":
			rig.WaitUntil(T+3*time.Second, func() bool { return ctl.Find(at("ack.timer.beforeLock")) != nil })
		case "timerdecide":
			if wt := ctl.Find(at("ack.timer.beforeLock")); wt != nil {
				ctl.Release(wt)
				rig.WaitUntil(time.Second, func() bool { return lastEvent("ack.timer.decide", func(vtrace.Rec) bool { return true }) })
			}
		case "purgeacks":
			if wt := ctl.WaitFor(at("ack.timer.beforePurge"), 200*time.Millisecond); wt != nil {
				ctl.Release(wt)
			}
		case "timerinvoke":
			rig.WaitUntil(500*time.Millisecond, func() bool { return w.ncb(k) > 0 })
		}
	}
	ctl.OpenAll()
	want := map[int]string{}
	for _, k := range ks {
		k := k
		rig.WaitUntil(T+3*time.Second, func() bool { return w.ncb(k) > 0 })
		want[k] = "any1"
	}
	time.Sleep(20 * time.Millisecond)
	vtrace.Emit("quiesce")
	e.judge(id, w, want, steps)
	e.res.Case(fmt.Sprint(dir, steps), true)
	e.end()
}

// ---------------------------------------------------------------------------
// offline buffer (client emitter)

func (e *env) runOffline(order string, natt int, connectFirst bool, transports []string) {
	id := e.begin("offline", "order", order, "natt", natt, "connectFirst", connectFirst)
	w, err := newWorld("c2s", transports, false)
	if err != nil {
		e.res.Inconclusive("rig", err.Error(), id)
		e.end()
		return
	}
	defer w.close()
	T := 40 * time.Millisecond
	if connectFirst {
		T = 600 * time.Millisecond
	}
	t0 := time.Now()
	// A: time-out, natt attachments; B: ack without time-out, 1 attachment; C: plain event - in the given order
	hasB := strings.Contains(order, "B")
	for _, c := range order {
		switch c {
		case 'A':
			w.emit("c2s", 1, natt, T)
		case 'B':
			w.emit("c2s", 2, 1, 0)
		case 'C':
			vtrace.Emit("emit.start", "k", 3)
			w.csock.Emit("plain", 3)
		}
	}
	want := map[int]string{}
	if !connectFirst {
		rig.WaitUntil(T+2*time.Second, func() bool { return w.ncb(1) > 0 })
		want[1] = "timeout"
	}
	connected := make(chan bool, 1)
	go func() { connected <- w.connect() }()
	select {
	case ok := <-connected:
		if !ok {
			e.res.Violation("ack-socket-unusable", "the socket did not connect after an offline ack time-out (send buffer mutex left locked?)", id, nil)
		}
	case <-time.After(12 * time.Second):
		e.res.Violation("ack-socket-unusable", "Connect blocked after an offline ack time-out", id, nil)
	}
	// the peer acks whatever arrives
	rig.WaitUntil(3*time.Second, func() bool {
		w.mu.Lock()
		defer w.mu.Unlock()
		return (!hasB || w.ackFn[2] != nil) && (!connectFirst || w.ackFn[1] != nil)
	})
	w.mu.Lock()
	for _, f := range w.ackFn {
		go f()
	}
	w.mu.Unlock()
	rig.WaitUntil(3*time.Second, func() bool { return (!hasB || w.ncb(2) > 0) && (!connectFirst || w.ncb(1) > 0) })
	if hasB {
		want[2] = "reply"
	}
	if connectFirst {
		want[1] = "reply"
	}
	// the socket must remain usable: a probe emit with ack gets its reply
	done := make(chan struct{})
	go func() { w.emit("c2s", 4, 0, 0); close(done) }()
	select {
	case <-done:
		rig.WaitUntil(2*time.Second, func() bool { w.mu.Lock(); defer w.mu.Unlock(); return w.ackFn[4] != nil })
		w.mu.Lock()
		f := w.ackFn[4]
		w.mu.Unlock()
		if f != nil {
			go f()
		}
		rig.WaitUntil(3*time.Second, func() bool { return w.ncb(4) > 0 })
		want[4] = "reply"
	case <-time.After(3 * time.Second):
		e.res.Violation("ack-socket-unusable", "a later Emit blocked (mutex left held after the ack time-out)", id, nil)
	}
	if d := T + 30*time.Millisecond - time.Since(t0); d > 0 {
		time.Sleep(d) // let this scenario's timer fire inside the scenario
	}
	time.Sleep(20 * time.Millisecond)
	vtrace.Emit("quiesce")
	e.judge(id, w, want, map[string]any{"order": order, "natt": natt, "connectFirst": connectFirst})
	w.mu.Lock()
	got := fmt.Sprint(w.got)
	w.mu.Unlock()
	vtrace.Emit("note", "peerGot", got)
	e.res.Case(fmt.Sprint("offline", order, natt, connectFirst), true)
	e.end()
}

// ---------------------------------------------------------------------------
// many outstanding acks, replies around the time-out

func (e *env) runMany(dir string, rng *rand.Rand, n int, transports []string) {
	id := e.begin("many-"+dir, "n", n)
	w, err := newWorld(dir, transports, true)
	if err != nil {
		e.res.Inconclusive("rig", err.Error(), id)
		e.end()
		return
	}
	defer w.close()
	const T = 60 * time.Millisecond
	delays := make([]time.Duration, n+1)
	natts := make([]int, n+1)
	for k := 1; k <= n; k++ {
		switch rng.Intn(4) {
		case 0:
			delays[k] = -1 // never
		case 1:
			delays[k] = T + time.Duration(rng.Intn(7)-3)*time.Millisecond // around the time-out
		default:
			delays[k] = time.Duration(rng.Intn(int(2 * T)))
		}
		natts[k] = rng.Intn(4)
	}
	var wg sync.WaitGroup
	for g := 0; g < 4; g++ {
		g := g
		wg.Add(1)
		go func() {
			defer wg.Done()
			for k := 1 + g; k <= n; k += 4 {
				w.emit(dir, k, natts[k], T)
				k := k
				if delays[k] >= 0 {
					go func() {
						time.Sleep(delays[k])
						if rig.WaitUntil(time.Second, func() bool { w.mu.Lock(); defer w.mu.Unlock(); return w.ackFn[k] != nil }) {
							w.mu.Lock()
							f := w.ackFn[k]
							w.mu.Unlock()
							f()
						}
					}()
				}
			}
		}()
	}
	wg.Wait()
	want := map[int]string{}
	for k := 1; k <= n; k++ {
		want[k] = "any1"
	}
	rig.WaitUntil(3*T+3*time.Second, func() bool {
		for k := 1; k <= n; k++ {
			if w.ncb(k) == 0 {
				return false
			}
		}
		return true
	})
	time.Sleep(3 * T)
	vtrace.Emit("quiesce")
	e.judge(id, w, want, nil)
	e.res.Case(fmt.Sprint("many", dir, n, rng.Int63()), true)
	e.end()
}

// emitter loses its connection while the ack is outstanding
func (e *env) runMidflight(transports []string) {
	id := e.begin("midflight")
	w, err := newWorld("c2s", transports, true)
	if err != nil {
		e.res.Inconclusive("rig", err.Error(), id)
		e.end()
		return
	}
	defer w.close()
	const T = 80 * time.Millisecond
	w.emit("c2s", 1, 1, T)
	rig.WaitUntil(time.Second, func() bool { w.mu.Lock(); defer w.mu.Unlock(); return len(w.got) > 0 })
	w.mu.Lock()
	ss := w.ssock
	w.mu.Unlock()
	ss.Disconnect(true)
	rig.WaitUntil(T+3*time.Second, func() bool { return w.ncb(1) > 0 })
	time.Sleep(30 * time.Millisecond)
	vtrace.Emit("quiesce")
	e.judge(id, w, map[int]string{1: "timeout"}, nil)
	e.res.Case("midflight", true)
	e.end()
}

func TestC03(t *testing.T) {
	out := vres.OutDir()
	res := vres.New()
	res.Rule = "one case = one scenario on a real client/server pair: a forced interleaving (projection of a TLC behaviour of AcksGen) of reply path and timer, an offline-buffer history, a batch of outstanding acks with seeded reply delays, or a mid-flight disconnect; distinct by script / parameters"
	vtrace.Install()
	defer vtrace.Uninstall()
	vtrace.SetFilter(keep)
	w, err := vtrace.NewWriter(filepath.Join(out, "trace.ndjson"))
	if err != nil {
		t.Fatal(err)
	}
	e := &env{res: res, w: w}
	var scripts [][][]string
	if f := os.Getenv("VERIF_SCRIPTS"); f != "" {
		b, err := os.ReadFile(f)
		if err != nil {
			t.Fatal(err)
		}
		json.Unmarshal(b, &scripts)
	}
	ws := []string{"websocket"}
	for i, sc := range scripts {
		dir := "c2s"
		if i%2 == 1 {
			dir = "s2c"
		}
		if len(res.Samples) < 2 {
			res.Sample(sc)
		}
		e.runScript(dir, ws, sc)
	}
	res.Count("scripts", len(scripts))
	orders := []string{"A", "AB", "BA", "AC", "CA", "ABC", "ACB", "BAC", "BCA", "CAB", "CBA"}
	for _, o := range orders {
		for _, natt := range []int{0, 2} {
			e.runOffline(o, natt, false, ws)
		}
		e.runOffline(o, 1, true, ws)
	}
	e.runOffline("ABC", 3, false, ws)
	rng := rand.New(rand.NewSource(vres.Seed()))
	for i := 0; i < vres.Pick(2, 12); i++ {
		e.runMany("c2s", rng, 40, ws)
		e.runMany("s2c", rng, 40, []string{"polling"})
	}
	e.runMidflight(ws)
	if vres.Tier() == "thorough" {
		e.runMidflight([]string{"polling"})
		for _, o := range orders {
			e.runOffline(o, 3, false, []string{"polling"})
		}
	}
	res.Scenarios = e.scen
	w.Close()
	if err := res.Write(out, "result.json"); err != nil {
		t.Fatal(err)
	}
}
