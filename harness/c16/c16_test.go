//go:build verif

// Driver for C16 (the public API under arbitrary concurrent use: no deadlock, no mutex left held):
// randomly generated concurrent programs over the server, namespace, socket, manager and adapter
// APIs - operations issued from handlers as well - on a real server with real Go clients, with
// every mutex of the library instrumented (internal/sync under the verif tag), a watchdog on
// operations that never return, GOMAXPROCS in {1,2,4,16} and yields injected at the hook points.
package c16

import (
	"fmt"
	"math/rand"
	"os"
	"path/filepath"
	"runtime"
	"sync"
	"sync/atomic"
	"testing"
	"time"

	sio "github.com/karagenc/socket.io-go"
	"github.com/karagenc/socket.io-go/adapter"

	"verif/harness/rig"
	"verif/harness/vres"
	"verif/harness/vtrace"
)

var rooms = []sio.Room{"r1", "r2", "r3"}

type world struct {
	srv  *rig.Server
	nsps []*sio.Namespace
	mgrs []*sio.Manager
	cs   []sio.ClientSocket
	mu   sync.Mutex
	ss   []sio.ServerSocket
	seed  int64
	hops  int64 // operations issued from handlers
	ready int32 // set once the world is built: handlers issue operations only from then on
}

type watchdog struct {
	mu   sync.Mutex
	cur  map[int]opInfo
	next int
}
type opInfo struct {
	name  string
	since time.Time
}

func (wd *watchdog) begin(name string) int {
	wd.mu.Lock()
	defer wd.mu.Unlock()
	wd.next++
	wd.cur[wd.next] = opInfo{name, time.Now()}
	return wd.next
}
func (wd *watchdog) end(id int) { wd.mu.Lock(); delete(wd.cur, id); wd.mu.Unlock() }
func (wd *watchdog) stuck(d time.Duration) []string {
	wd.mu.Lock()
	defer wd.mu.Unlock()
	var out []string
	for _, o := range wd.cur {
		if time.Since(o.since) > d {
			out = append(out, o.name)
		}
	}
	return out
}

func (w *world) sockets() []sio.ServerSocket {
	w.mu.Lock()
	defer w.mu.Unlock()
	return append([]sio.ServerSocket(nil), w.ss...)
}

// one random operation; from = "g<k>" or the handler it is issued from
func (w *world) op(r *rand.Rand, wd *watchdog, from string, depth int) {
	nOps := 37
	k := r.Intn(nOps)
	nsp := w.nsps[r.Intn(len(w.nsps))]
	room := rooms[r.Intn(len(rooms))]
	ss := w.sockets()
	var s sio.ServerSocket
	if len(ss) > 0 {
		s = ss[r.Intn(len(ss))]
	}
	c := w.cs[r.Intn(len(w.cs))]
	m := w.mgrs[r.Intn(len(w.mgrs))]
	name := fmt.Sprintf("%s:op%d", from, k)
	id := wd.begin(name)
	defer wd.end(id)
	h := func(x int) {} // a fresh handler value per registration
	switch k {
	case 0:
		nsp.Emit("b", 1)
	case 1:
		nsp.To(room).Emit("b", 2)
	case 2:
		nsp.Except(room).Emit("b", 3)
	case 3:
		nsp.In(room).SocketsJoin(rooms[r.Intn(len(rooms))])
	case 4:
		nsp.In(room).SocketsLeave(rooms[r.Intn(len(rooms))])
	case 5:
		nsp.FetchSockets()
	case 6:
		nsp.Sockets()
	case 7:
		f := sio.NamespaceConnectionFunc(func(sio.ServerSocket) {})
		nsp.OnConnection(f)
		nsp.OffConnection(f)
	case 8:
		nsp.OnceConnection(func(sio.ServerSocket) {})
	case 9:
		switch r.Intn(4) {
		case 0:
			nsp.OnEvent("nev", h)
			nsp.OffEvent("nev", h)
		case 1:
			nsp.OffEvent("never-registered", h, func(int) {}) // several handlers, unknown event
		case 2:
			nsp.OnEvent("nev2", h)
			nsp.OffEvent("nev2") // all handlers of the event
		case 3:
			nsp.OnceEvent("nev", h)
			nsp.OffEvent("nev", h, h)
		}
	case 10:
		nsp.Adapter().SocketRooms("nobody")
		nsp.Adapter().Sockets(adapter.NewBroadcastOptions().Rooms)
	case 11:
		if s != nil {
			s.Join(room)
		}
	case 12:
		if s != nil {
			s.Leave(room)
		}
	case 13:
		if s != nil {
			s.Rooms()
		}
	case 14:
		if s != nil {
			s.Emit("e", 4)
		}
	case 15:
		if s != nil {
			s.Emit("ea", 5, func(x int) {})
		}
	case 16:
		if s != nil {
			s.To(room).Emit("b", 6)
		}
	case 17:
		if s != nil {
			s.Broadcast().Emit("b", 7)
		}
	case 18:
		if s != nil {
			switch r.Intn(4) {
			case 0:
				s.OnEvent("sev", h)
				s.OffEvent("sev", h)
			case 1:
				s.OffEvent("never-registered", h, func(int) {})
			case 2:
				s.OnEvent("sev2", h)
				s.OffEvent("sev2")
			case 3:
				s.OffEvent("sev", h, h)
			}
		}
	case 19:
		if s != nil {
			s.OnceEvent("sev", h)
		}
	case 20:
		if s != nil {
			f := sio.ServerSocketDisconnectFunc(func(sio.Reason) {})
			s.OnDisconnect(f)
			s.OffDisconnect(f)
		}
	case 21:
		if s != nil {
			s.Timeout(50*time.Millisecond).Emit("ea", 8, func(err error, x int) {})
		}
	case 22:
		c.Emit("do", r.Intn(1000)) // the server's handler performs an operation of its own
	case 23:
		c.Emit("ack", 9, func(x int) {})
	case 24:
		c.Volatile().Emit("do", r.Intn(1000))
	case 25:
		switch r.Intn(4) {
		case 0:
			c.OnEvent("cev", h)
			c.OffEvent("cev", h)
		case 1:
			c.OffEvent("never-registered", h, func(int) {})
		case 2:
			c.OnEvent("cev2", h)
			c.OffEvent("cev2")
		case 3:
			c.OffEvent("cev", h, h)
		}
	case 26:
		c.OnceEvent("cev", h)
	case 27:
		f := sio.ManagerOpenFunc(func() {})
		m.OnOpen(f)
		m.OffOpen(f)
	case 28:
		c.Connected()
		c.ID()
		c.Active()
	case 29:
		c.Timeout(50*time.Millisecond).Emit("ack", 10, func(err error, x int) {})
	case 30:
		// leave and come back (rare)
		if r.Intn(6) == 0 {
			c.Disconnect()
			time.Sleep(time.Duration(r.Intn(3)) * time.Millisecond)
			c.Connect()
		}
	case 31:
		if s != nil && r.Intn(8) == 0 {
			s.Disconnect(false)
		}
	case 32:
		m.Socket("/", nil)
		if r.Intn(4) == 0 {
			c.Connect() // already connected or connecting: must be harmless
		}
	case 33:
		nsp.In(room).FetchSockets()
		if r.Intn(10) == 0 {
			nsp.In(room).DisconnectSockets(false)
		}
	case 34:
		// the adapter's session API (public through Namespace.Adapter): sessions of the harness's own, so that
		// every exit of RestoreSession is taken - unknown, expired but not yet cleaned (the public creator cleans
		// once a minute), fresh with an unknown offset
		pid := adapter.PrivateSessionID(fmt.Sprintf("vp%d", r.Intn(6)))
		nsp.Adapter().PersistSession(&adapter.SessionToPersist{SID: adapter.SocketID("vs" + string(pid)), PID: pid, Rooms: []adapter.Room{adapter.Room(room)}})
	case 35:
		pid := adapter.PrivateSessionID(fmt.Sprintf("vp%d", r.Intn(8)))
		nsp.Adapter().RestoreSession(pid, "no-such-offset")
	case 36:
		pid := adapter.PrivateSessionID(fmt.Sprintf("vp%d", r.Intn(6)))
		nsp.Adapter().PersistSession(&adapter.SessionToPersist{SID: adapter.SocketID("vs" + string(pid)), PID: pid})
		time.Sleep(time.Duration(r.Intn(25)) * time.Millisecond) // around the 15 ms window: expired or not
		nsp.Adapter().RestoreSession(pid, "")
		nsp.Emit("b", 11)
	}
	_ = depth
}

func newWorld(seed int64, nclients int, wd *watchdog, recov bool) (*world, error) {
	w := &world{seed: seed}
	var hseq int64
	fromHandler := func(kind string) {
		// handlers issue operations too (bounded: an operation issued here may trigger handlers again)
		if atomic.LoadInt32(&w.ready) == 0 {
			return
		}
		n := atomic.AddInt64(&hseq, 1)
		if n > 400 {
			return
		}
		atomic.AddInt64(&w.hops, 1)
		r := rand.New(rand.NewSource(seed*7919 + n))
		w.op(r, wd, "h-"+kind, 1)
	}
	var cfg *sio.ServerConfig
	if recov { // the session-aware adapter, as the public configuration builds it
		cfg = &sio.ServerConfig{ServerConnectionStateRecovery: sio.ServerConnectionStateRecovery{Enabled: true, MaxDisconnectionDuration: 15 * time.Millisecond}}
	}
	srv, err := rig.NewServer(cfg, func(io *sio.Server) {
		for _, name := range []string{"/", "/n"} {
			n := io.Of(name)
			w.nsps = append(w.nsps, n)
			n.Use(func(s sio.ServerSocket, h *sio.Handshake) any {
				s.OnEvent("do", func(x int) { fromHandler("event") })
				s.OnEvent("ack", func(x int, ack func(int)) { ack(x); fromHandler("ackevent") })
				s.OnDisconnecting(func(sio.Reason) { fromHandler("disconnecting") })
				s.OnDisconnect(func(sio.Reason) {
					w.mu.Lock()
					for i, x := range w.ss {
						if x == s {
							w.ss = append(w.ss[:i], w.ss[i+1:]...)
							break
						}
					}
					w.mu.Unlock()
					fromHandler("disconnect")
				})
				return nil
			})
			n.OnConnection(func(s sio.ServerSocket) {
				w.mu.Lock()
				w.ss = append(w.ss, s)
				w.mu.Unlock()
				s.Join(rooms[len(s.ID())%len(rooms)])
				fromHandler("connection")
			})
		}
	})
	if err != nil {
		return nil, err
	}
	w.srv = srv
	d, mx := 5*time.Millisecond, 20*time.Millisecond
	for i := 0; i < nclients; i++ {
		tr := [][]string{{"websocket"}, {"polling"}, {"polling", "websocket"}}[i%3]
		m := rig.NewManager(srv.URL(), tr, &sio.ManagerConfig{ReconnectionDelay: &d, ReconnectionDelayMax: &mx})
		w.mgrs = append(w.mgrs, m)
		for _, name := range []string{"/", "/n"}[:1+i%2] {
			c := m.Socket(name, nil)
			c.OnEvent("e", func(x int) { fromHandler("c-event") })
			c.OnEvent("ea", func(x int, ack func(int)) { ack(x) })
			c.OnEvent("b", func(x int) {})
			c.OnConnect(func() { fromHandler("c-connect") })
			c.OnDisconnect(func(sio.Reason) { fromHandler("c-disconnect") })
			w.cs = append(w.cs, c)
			c.Connect()
		}
	}
	ok := rig.WaitUntil(5*time.Second, func() bool {
		for _, c := range w.cs {
			if !c.Connected() {
				return false
			}
		}
		return true
	})
	if !ok {
		w.close()
		return nil, fmt.Errorf("clients did not connect")
	}
	atomic.StoreInt32(&w.ready, 1)
	return w, nil
}

func (w *world) close() {
	done := make(chan struct{})
	go func() {
		for _, m := range w.mgrs {
			m.Close()
		}
		w.srv.Close()
		close(done)
	}()
	select {
	case <-done:
	case <-time.After(8 * time.Second):
	}
}

func TestC16(t *testing.T) {
	out := vres.OutDir()
	res := vres.New()
	res.Rule = "one case = one randomly generated concurrent program: 2..16 goroutines x 20..40 operations drawn from 37 kinds over the server, namespace, socket, manager and adapter APIs (handlers issue operations too), 2-4 real clients over the three transport configurations, every second program on a server with connection state recovery (session-aware adapter), GOMAXPROCS in {1,2,4,16}, yields injected at the hook points; distinct by seed; all non-trivial"
	vtrace.Install()
	defer vtrace.Uninstall()
	vtrace.SetFilter(func(name string) bool { return name == "reset" || name == "quiesce" || name == "settle" })
	vtrace.InstallLocks()
	defer vtrace.UninstallLocks()
	tw, err := vtrace.NewWriter(filepath.Join(out, "locks.ndjson"))
	if err != nil {
		t.Fatal(err)
	}
	rng := rand.New(rand.NewSource(vres.Seed()))
	procs := []int{1, 2, 4, 16}
	defer runtime.GOMAXPROCS(runtime.GOMAXPROCS(0))
	nscen := vres.Pick(12, 40)
	for sc := 1; sc <= nscen; sc++ {
		seed := rng.Int63()
		gmp := procs[sc%len(procs)]
		runtime.GOMAXPROCS(gmp)
		yieldP := []int{0, 3, 10}[sc%3]
		var ycount int64
		sio.VerifSetGate(func(point string, key any) {
			if yieldP > 0 && int(atomic.AddInt64(&ycount, 1))%yieldP == 0 {
				runtime.Gosched()
			}
		})
		wd := &watchdog{cur: map[int]opInfo{}}
		vtrace.Take()
		w, err := newWorld(seed, 2+sc%3, wd, sc%2 == 1)
		if err != nil { // a loaded machine: once more
			time.Sleep(500 * time.Millisecond)
			w, err = newWorld(seed, 2+sc%3, wd, sc%2 == 1)
		}
		if err != nil {
			res.Inconclusive("rig", err.Error(), sc)
			sio.VerifSetGate(nil)
			continue
		}
		vtrace.Take() // set-up is not part of the program (its locks were released: checked below by the first quiesce)
		vtrace.Emit("reset", "scenario", sc, "seed", seed, "gomaxprocs", gmp, "yield", yieldP)
		ng := 2 + int(seed%15)
		per := 20 + int(seed%21)
		var wg sync.WaitGroup
		for g := 0; g < ng; g++ {
			g := g
			wg.Add(1)
			go func() {
				defer wg.Done()
				r := rand.New(rand.NewSource(seed + int64(g)*104729))
				for i := 0; i < per; i++ {
					w.op(r, wd, fmt.Sprintf("g%d", g), 0)
					if r.Intn(5) == 0 {
						runtime.Gosched()
					}
				}
			}()
		}
		fin := make(chan struct{})
		go func() { wg.Wait(); close(fin) }()
		hung := false
		select {
		case <-fin:
		case <-time.After(30 * time.Second):
			hung = true
		}
		time.Sleep(150 * time.Millisecond) // handlers on their own goroutines finish
		if st := wd.stuck(5 * time.Second); hung || len(st) > 0 {
			buf := make([]byte, 1<<20)
			n := runtime.Stack(buf, true)
			os.WriteFile(filepath.Join(out, fmt.Sprintf("hang-%d.stacks.txt", sc)), buf[:n], 0o644)
			res.Violation("c16-hang", fmt.Sprintf("scenario %d (seed %d, GOMAXPROCS %d): operations that did not return: %v", sc, seed, gmp, st), sc, map[string]any{"seed": seed, "stuck": st})
		}
		w.close()
		time.Sleep(100 * time.Millisecond)
		// what is held or awaited now and still is 300 ms later was left behind (a goroutine merely caught inside a critical section moves on)
		vtrace.Emit("settle", "scenario", sc)
		time.Sleep(300 * time.Millisecond)
		vtrace.Emit("quiesce", "scenario", sc, "handlerOps", atomic.LoadInt64(&w.hops), "alive", vtrace.AliveGs())
		sio.VerifSetGate(nil)
		tw.Write(vtrace.Take())
		res.Case(fmt.Sprint("prog", seed, ng, per, gmp, yieldP), true)
		res.Count("handler_ops", int(atomic.LoadInt64(&w.hops)))
		res.Count("goroutines", ng)
		res.Count("operations", ng*per)
	}
	res.Scenarios = nscen
	tw.Close()
	if err := res.Write(out, "result.json"); err != nil {
		t.Fatal(err)
	}
}
