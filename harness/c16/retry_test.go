//go:build verif

package c16

// The client's retry queue (RetryQueue.tla): emits with Retries > 0 through outages, slow and lost
// acknowledgements; what it must never do is leave its mutex locked (every later Emit would block).

import (
	"fmt"
	"math/rand"
	"path/filepath"
	"strings"
	"sync/atomic"
	"testing"
	"time"

	sio "github.com/karagenc/socket.io-go"

	"verif/harness/proxy"
	"verif/harness/rig"
	"verif/harness/vres"
	"verif/harness/vtrace"
)

type rworld struct {
	srv   *rig.Server
	px    *proxy.Proxy
	m     *sio.Manager
	s     sio.ClientSocket
	delay int64 // ns the server waits before acknowledging
	mute  int32 // the server does not acknowledge at all
	n     int
	told  int64
	ended int64
}

func newRWorld(retries int, ackTO time.Duration) (*rworld, error) {
	w := &rworld{}
	srv, err := rig.NewServer(nil, func(io *sio.Server) {
		io.Of("/").Use(func(s sio.ServerSocket, h *sio.Handshake) any {
			s.OnEvent("x", func(n int, ack func(string)) {
				vtrace.Emit("h.entry", "n", n)
				if d := atomic.LoadInt64(&w.delay); d > 0 {
					time.Sleep(time.Duration(d))
				}
				if atomic.LoadInt32(&w.mute) == 0 {
					ack("ok")
				}
			})
			return nil
		})
	})
	if err != nil {
		return nil, err
	}
	w.srv = srv
	px, err := proxy.New(strings.TrimPrefix(srv.URL(), "http://"))
	if err != nil {
		srv.Close()
		return nil, err
	}
	w.px = px
	d, mx := 10*time.Millisecond, 20*time.Millisecond
	var j float32
	w.m = rig.NewManager(px.URL(), []string{"websocket"}, &sio.ManagerConfig{ReconnectionDelay: &d, ReconnectionDelayMax: &mx, RandomizationFactor: &j})
	w.s = w.m.Socket("/", &sio.ClientSocketConfig{Retries: retries, AckTimeout: ackTO})
	return w, nil
}

func (w *rworld) emit() {
	n := w.n
	w.n++
	vtrace.Emit("emit.start", "n", n)
	done := make(chan struct{})
	go func() {
		w.s.Emit("x", n, func(err error, r string) {
			vtrace.Emit("told", "n", n, "ok", err == nil)
			atomic.AddInt64(&w.told, 1)
		})
		vtrace.Emit("emit.end", "n", n)
		atomic.AddInt64(&w.ended, 1)
		close(done)
	}()
	select {
	case <-done:
	case <-time.After(2 * time.Second): // a blocked Emit is reported at quiescence (emit.end missing)
	}
}

func (w *rworld) close() {
	done := make(chan struct{})
	go func() { w.m.Close(); close(done) }()
	select {
	case <-done:
	case <-time.After(time.Second):
	}
	w.px.Close()
	w.srv.Close()
}

func TestRetryQueue(t *testing.T) {
	out := vres.OutDir()
	res := vres.New()
	res.Rule = "one case = one scenario on a fresh server + proxy + client with Retries in {1,2} and AckTimeout 150 ms: scripted (acknowledgement lost with the connection, then the stale time-out; slow acknowledgements; a mute server until the packet is given up) and seeded random mixes of emits, cuts, slow and mute phases; all non-trivial"
	vtrace.Install()
	defer vtrace.Uninstall()
	vtrace.SetFilter(func(n string) bool {
		switch n {
		case "rq.add", "rq.send", "rq.drop", "rq.stale", "reset", "emit.start", "emit.end", "h.entry", "told", "quiesce", "note", "link":
			return true
		}
		return false
	})
	vtrace.SetObjectKeys("q")
	tw, err := vtrace.NewWriter(filepath.Join(out, "trace.ndjson"))
	if err != nil {
		t.Fatal(err)
	}
	rng := rand.New(rand.NewSource(vres.Seed()))
	const ackTO = 150 * time.Millisecond
	scen := 0
	run := func(name string, retries int, body func(w *rworld)) {
		scen++
		vtrace.Take()
		w, err := newRWorld(retries, ackTO)
		if err != nil {
			res.Inconclusive("rig", err.Error(), scen)
			return
		}
		vtrace.SetObjectFilter(func(any) bool { return true })
		vtrace.Emit("reset", "scenario", scen, "cfg", name, "retries", retries)
		w.s.Connect()
		if !rig.WaitUntil(4*time.Second, func() bool { return w.s.Connected() }) {
			res.Inconclusive("retry", "no connect", scen)
			w.close()
			return
		}
		body(w)
		// heal, speak, and let everything settle: every packet acknowledged or given up
		atomic.StoreInt64(&w.delay, 0)
		atomic.StoreInt32(&w.mute, 0)
		rig.WaitUntil(4*time.Second, func() bool { return w.s.Connected() })
		rig.WaitUntil(time.Duration(retries+3)*ackTO+3*time.Second, func() bool {
			return atomic.LoadInt64(&w.told) >= int64(w.n) && atomic.LoadInt64(&w.ended) >= int64(w.n)
		})
		time.Sleep(ackTO + 100*time.Millisecond) // stale time-outs fire
		w.emit()                                  // the queue still works
		rig.WaitUntil(2*time.Second, func() bool { return atomic.LoadInt64(&w.told) >= int64(w.n) })
		time.Sleep(30 * time.Millisecond)
		vtrace.Emit("quiesce", "emitted", w.n, "told", atomic.LoadInt64(&w.told), "returned", atomic.LoadInt64(&w.ended))
		if e, n := atomic.LoadInt64(&w.ended), int64(w.n); e < n {
			res.Violation("c16-retryqueue-emit-blocked", fmt.Sprintf("%s: %d of %d Emit calls never returned (the queue's mutex was left locked)", name, n-e, n), scen, name)
		}
		tw.Write(vtrace.Take())
		vtrace.SetObjectFilter(func(any) bool { return false })
		w.close()
		res.Case(fmt.Sprint(name, retries, scen), true)
	}
	for _, r := range []int{1, 2} {
		// the acknowledgement of try 1 is lost with the connection; the re-send is acknowledged; then the stale time-out of try 1
		run("ack-lost-then-stale-timeout", r, func(w *rworld) {
			atomic.StoreInt64(&w.delay, int64(60*time.Millisecond))
			w.emit()
			time.Sleep(30 * time.Millisecond)
			w.px.CutAll()
			atomic.StoreInt64(&w.delay, 0)
			time.Sleep(ackTO * time.Duration(r+2))
		})
		run("slow-acks", r, func(w *rworld) {
			atomic.StoreInt64(&w.delay, int64(ackTO+40*time.Millisecond))
			w.emit()
			w.emit()
			time.Sleep(2 * ackTO)
			atomic.StoreInt64(&w.delay, 0)
			w.emit()
		})
		run("mute-until-given-up", r, func(w *rworld) {
			atomic.StoreInt32(&w.mute, 1)
			w.emit()
			w.emit()
			time.Sleep(time.Duration(r+1)*ackTO + 80*time.Millisecond)
			atomic.StoreInt32(&w.mute, 0)
			w.emit()
		})
		run("cut-while-queued", r, func(w *rworld) {
			for i := 0; i < 4; i++ {
				w.emit()
			}
			w.px.CutAll()
			w.emit()
			time.Sleep(ackTO)
		})
	}
	for i := 0; i < vres.Pick(6, 40); i++ {
		r := 1 + i%2
		run(fmt.Sprint("random-", i), r, func(w *rworld) {
			for k := 0; k < 6+rng.Intn(6); k++ {
				switch rng.Intn(6) {
				case 0, 1, 2:
					w.emit()
				case 3:
					w.px.CutAll()
				case 4:
					atomic.StoreInt64(&w.delay, int64(time.Duration(rng.Intn(250))*time.Millisecond))
				case 5:
					atomic.StoreInt32(&w.mute, int32(rng.Intn(2)))
				}
				time.Sleep(time.Duration(rng.Intn(120)) * time.Millisecond)
			}
		})
	}
	res.Scenarios = scen
	tw.Close()
	if err := res.Write(out, "result.json"); err != nil {
		t.Fatal(err)
	}
}
