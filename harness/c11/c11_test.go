//go:build verif

// Driver for C11: Engine.IO packet / payload / WebTransport frame vectors
// through the real encoders and decoders; arbitrary bytes into the decoders.
package c11

import (
	"bytes"
	"fmt"
	"io"
	"math/rand"
	"path/filepath"
	"runtime"
	"testing"

	"github.com/karagenc/socket.io-go/engine.io/parser"
	"github.com/karagenc/socket.io-go/engine.io/transport/webtransport"

	"verif/harness/vres"
	"verif/harness/vtrace"
)

func ints(b []byte) []int {
	out := make([]int, len(b))
	for i, c := range b {
		out[i] = int(c)
	}
	return out
}

type pk struct {
	Type int   `json:"type"`
	Bin  bool  `json:"bin"`
	Data []int `json:"data"`
}

func toPk(p *parser.Packet) pk { return pk{int(p.Type), p.IsBinary, ints(p.Data)} }

func mk(t int, bin bool, data []byte) *parser.Packet {
	return &parser.Packet{Type: parser.PacketType(t), IsBinary: bin, Data: append([]byte{}, data...)}
}

func guard(f func()) (panicked bool, msg string) {
	defer func() {
		if x := recover(); x != nil {
			panicked, msg = true, fmt.Sprint(x)
		}
	}()
	f()
	return
}

func pktRecord(w *vtrace.Writer, res *vres.Result, t int, bin bool, data []byte, sb bool) {
	p := mk(t, bin, data)
	var buf bytes.Buffer
	var dec *parser.Packet
	var derr error
	panicked, _ := guard(func() {
		p.Encode(&buf, sb)
		// how the transports decode: a websocket binary message is a binary frame; everything else is text
		binaryFrame := bin && sb
		dec, derr = parser.Decode(bytes.NewReader(buf.Bytes()), binaryFrame)
	})
	rec := vtrace.Rec{"ev": "pkt", "type": t, "bin": bin, "data": ints(data), "sb": sb, "enc": ints(buf.Bytes()),
		"enclen": p.EncodedLen(sb), "decok": !panicked && derr == nil && dec != nil}
	if dec != nil {
		rec["dec"] = toPk(dec)
	} else {
		rec["dec"] = pk{-1, false, []int{}}
	}
	w.Write([]vtrace.Rec{rec})
	res.Case(fmt.Sprint("pkt", t, bin, data, sb), len(data) > 0)
	if w.Lines()%3000 == 5 {
		res.Sample(rec)
	}
}

func payloadRecord(w *vtrace.Writer, res *vres.Result, ps []*parser.Packet) {
	var buf bytes.Buffer
	var dec []*parser.Packet
	var derr error
	panicked, _ := guard(func() {
		parser.EncodePayloads(&buf, ps...)
		dec, derr = parser.DecodePayloads(bytes.NewReader(buf.Bytes()))
	})
	in := make([]pk, len(ps))
	for i, p := range ps {
		in[i] = toPk(p)
	}
	out := make([]pk, len(dec))
	for i, p := range dec {
		out[i] = toPk(p)
	}
	rec := vtrace.Rec{"ev": "payload", "pkts": in, "enc": ints(buf.Bytes()), "enclen": parser.EncodedPayloadsLen(ps...),
		"decok": !panicked && derr == nil, "dec": out}
	w.Write([]vtrace.Rec{rec})
	res.Case(fmt.Sprint("payload", in), len(ps) > 1)
	if w.Lines()%3000 == 7 {
		res.Sample(rec)
	}
}

func frameRecord(w *vtrace.Writer, res *vres.Result, n int, bin bool, pattern []byte) {
	// a packet whose encoded length (supportsBinary) is n: text = type + n-1 data bytes, binary = n data bytes
	var p *parser.Packet
	if bin {
		p = mk(4, true, pattern[:n])
	} else if n == 0 {
		return // a text packet has at least its type character
	} else {
		p = mk(4, false, pattern[:n-1])
	}
	var buf bytes.Buffer
	var dec *parser.Packet
	var derr error
	panicked, _ := guard(func() {
		webtransport.VerifSend(&buf, p)
		dec, derr = webtransport.VerifNextPacket(bytes.NewReader(buf.Bytes()))
	})
	hl := 1
	if n >= 126 {
		hl = 3
	}
	if n >= 65536 {
		hl = 9
	}
	if hl > buf.Len() {
		hl = buf.Len()
	}
	rec := vtrace.Rec{"ev": "frame", "n": n, "bin": bin, "header": ints(buf.Bytes()[:hl]), "total": buf.Len(),
		"decok": !panicked && derr == nil && dec != nil, "declen": -1, "decbin": false, "same": false}
	if dec != nil {
		rec["declen"] = dec.EncodedLen(true)
		rec["decbin"] = dec.IsBinary
		rec["same"] = bytes.Equal(dec.Data, p.Data) && dec.Type == p.Type
	}
	w.Write([]vtrace.Rec{rec})
	res.Case(fmt.Sprint("frame", n, bin), n > 0)
	if n == 65536 {
		res.Sample(rec)
	}
}

// arbitrary bytes into a decoder; alloc = bytes allocated while decoding
func anyRecord(w *vtrace.Writer, res *vres.Result, kind string, in []byte, limit int64) {
	var ms0, ms1 runtime.MemStats
	runtime.ReadMemStats(&ms0)
	panicked, msg := guard(func() {
		switch kind {
		case "packet":
			parser.Decode(bytes.NewReader(in), false)
			parser.Decode(bytes.NewReader(in), true)
		case "payload":
			parser.DecodePayloads(bytes.NewReader(in))
		case "frame":
			webtransport.VerifNextPacket(bytes.NewReader(in))
		case "frame-limited":
			webtransport.VerifNextPacketLimited(io.MultiReader(bytes.NewReader(in)), limit)
		}
	})
	runtime.ReadMemStats(&ms1)
	show := in
	if len(show) > 16 {
		show = show[:16]
	}
	rec := vtrace.Rec{"ev": "any", "kind": kind, "bytes": ints(show), "len": len(in), "panicked": panicked, "msg": msg,
		"limit": limit, "alloc": int64(ms1.TotalAlloc - ms0.TotalAlloc), "slack": 1 << 20}
	w.Write([]vtrace.Rec{rec})
	res.Case(fmt.Sprint("any", kind, in, limit), true)
}

func TestC11(t *testing.T) {
	out := vres.OutDir()
	res := vres.New()
	res.Rule = "pkt/payload: all packets with data over {0,30,97,255} up to length 3 (4 thorough) x types x binary x modes, pairs and triples as payloads, plus seeded random data up to 300 bytes; frame: real frames of every length in the tier's length set (quick: boundaries +-3 and every 97th up to 70000; thorough: every length) x binary flag; any: all byte strings up to length 3 over a 7-symbol alphabet plus seeded random strings and hostile length headers"
	w, err := vtrace.NewWriter(filepath.Join(out, "trace.ndjson"))
	if err != nil {
		t.Fatal(err)
	}
	w.Write([]vtrace.Rec{{"ev": "reset", "scenario": 1, "cfg": "vectors"}})
	alpha := []byte{0, 30, 97, 255}
	maxData := vres.Pick(3, 4)
	var datas [][]byte
	var gen func(cur []byte)
	gen = func(cur []byte) {
		datas = append(datas, append([]byte{}, cur...))
		if len(cur) == maxData {
			return
		}
		for _, c := range alpha {
			gen(append(cur, c))
		}
	}
	gen(nil)
	var small []*parser.Packet
	for _, d := range datas {
		for ty := 0; ty <= 6; ty++ {
			hasSep := bytes.IndexByte(d, 30) >= 0
			for _, sb := range []bool{false, true} {
				pktRecord(w, res, ty, false, d, sb)
			}
			if len(d) <= 2 && !hasSep {
				small = append(small, mk(ty, false, d))
			}
		}
		for _, sb := range []bool{false, true} {
			pktRecord(w, res, 4, true, d, sb)
		}
		if len(d) <= 2 {
			small = append(small, mk(4, true, d))
		}
	}
	// payloads: text data must not contain the separator (the property excludes it)
	rng := rand.New(rand.NewSource(vres.Seed()))
	for i, p := range small {
		payloadRecord(w, res, []*parser.Packet{p})
		for j := 0; j < vres.Pick(6, 40); j++ {
			q := small[rng.Intn(len(small))]
			payloadRecord(w, res, []*parser.Packet{p, q})
			if j%3 == 0 {
				payloadRecord(w, res, []*parser.Packet{q, p, small[(i*7+j)%len(small)]})
			}
		}
	}
	payloadRecord(w, res, []*parser.Packet{})
	for i := 0; i < vres.Pick(300, 3000); i++ {
		d := make([]byte, rng.Intn(300))
		rng.Read(d)
		bin := rng.Intn(2) == 0
		if !bin {
			d = bytes.ReplaceAll(d, []byte{30}, []byte{31})
		}
		ty := 4
		if !bin {
			ty = rng.Intn(7)
		}
		pktRecord(w, res, ty, bin, d, rng.Intn(2) == 0)
	}
	// large packets: the base64 path over text transports and the raw path, around internal buffer sizes
	bigSizes := []int{1000, 1023, 1024, 1025, 2047, 2048, 2049, 3000, 3071, 3072, 3073, 4095, 4096, 4097, 4098, 5000, 8191, 8192, 8193, 12287, 12288, 12289, 16384, 16385}
	if vres.Tier() == "thorough" {
		bigSizes = append(bigSizes, 20000, 32767, 32768, 32769, 49152, 49153, 65535, 65536, 65537)
	}
	for _, n := range bigSizes {
		d := make([]byte, n)
		rng.Read(d)
		for _, sb := range []bool{false, true} {
			pktRecord(w, res, 4, true, d, sb)
		}
		pktRecord(w, res, 4, false, bytes.ReplaceAll(d, []byte{30}, []byte{31}), false)
		if n <= 5000 {
			payloadRecord(w, res, []*parser.Packet{mk(4, true, d), mk(4, false, []byte("x")), mk(4, true, d[:n/2])})
		}
	}
	res.Count("pkt_payload_records", w.Lines())

	// frames
	pattern := make([]byte, 70001)
	for i := range pattern {
		pattern[i] = byte('a' + i%23)
	}
	lens := map[int]bool{}
	if vres.Tier() == "thorough" {
		for n := 0; n <= 70000; n++ {
			lens[n] = true
		}
	} else {
		for _, b := range []int{0, 125, 126, 127, 128, 255, 256, 65535, 65536, 65537, 70000} {
			for d := -3; d <= 3; d++ {
				if b+d >= 0 && b+d <= 70000 {
					lens[b+d] = true
				}
			}
		}
		for n := 0; n <= 70000; n += 97 {
			lens[n] = true
		}
	}
	for n := 0; n <= 70000; n++ {
		if lens[n] {
			frameRecord(w, res, n, false, pattern)
			frameRecord(w, res, n, true, pattern)
		}
	}
	res.Count("frame_lengths", len(lens))

	// arbitrary bytes
	sym := []byte{0, 30, '4', 'b', '=', 126, 255}
	var strs [][]byte
	var gen2 func(cur []byte)
	gen2 = func(cur []byte) {
		strs = append(strs, append([]byte{}, cur...))
		if len(cur) == 3 {
			return
		}
		for _, c := range sym {
			gen2(append(cur, c))
		}
	}
	gen2(nil)
	for _, s := range strs {
		for _, kind := range []string{"packet", "payload", "frame"} {
			anyRecord(w, res, kind, s, 0)
		}
	}
	for i := 0; i < vres.Pick(500, 5000); i++ {
		s := make([]byte, rng.Intn(40))
		rng.Read(s)
		anyRecord(w, res, []string{"packet", "payload", "frame"}[i%3], s, 0)
	}
	// hostile headers: a huge announced length with almost no data behind it
	for _, ann := range []uint64{70000, 1 << 20, 1 << 24, 1 << 30, 3 << 30} {
		for _, flag := range []byte{0, 0x80} {
			h := []byte{127 | flag, 0, 0, 0, 0, 0, 0, 0, 0}
			for i := 0; i < 8; i++ {
				h[8-i] = byte(ann >> (8 * i))
			}
			in := append(h, []byte("4abc")...)
			for _, limit := range []int64{1000, 100000} {
				anyRecord(w, res, "frame-limited", in, limit)
			}
		}
	}
	for _, ann := range []uint16{1000, 65535} {
		h := []byte{126, byte(ann >> 8), byte(ann)}
		anyRecord(w, res, "frame-limited", append(h, '4'), 500)
	}
	res.Exhaustive = true
	w.Close()
	if err := res.Write(out, "result.json"); err != nil {
		t.Fatal(err)
	}
}
